"""Run checks against patches: python3 -m vf.mutants [--tests] [--seeds 0,1] PATCH...

Each PATCH is a unified diff against /repo (mutants/<PID>/<name>.diff or
seeded/<id>/patch.diff).  The property id is taken from the path
(mutants/C08/...) or from seeded/<id>/meta.json.  A scratch worktree of
/repo is created outside /repo and /verif, the patch applied, the check run
with VERIF_REPO pointing at it, and the worktree removed.
"""
from __future__ import annotations

import argparse
import json
import os
import re
import shutil
import subprocess
import sys
import time

VERIF = os.path.dirname(os.path.dirname(os.path.abspath(__file__)))
SCRATCH = '/tmp/vfm'


def sh(cmd, **kw):
    return subprocess.run(cmd, shell=True, capture_output=True, text=True,
                          **kw)


def props_of(patch):
    m = re.search(r'mutants/(C\d+)', patch)
    if m:
        return [m.group(1)]
    meta = os.path.join(os.path.dirname(patch), 'meta.json')
    if os.path.exists(meta):
        j = json.load(open(meta))
        p = j.get('property') or j.get('properties')
        return p if isinstance(p, list) else [p]
    raise SystemExit(f'cannot tell the property of {patch}')


def run_one(patch, tests, seeds, tier, props=None):
    patch = os.path.abspath(patch)
    name = re.sub(r'[^A-Za-z0-9]+', '_', patch[-60:])
    wt = os.path.join(SCRATCH, name)
    os.makedirs(SCRATCH, exist_ok=True)
    sh(f'git -C /repo worktree remove --force {wt}')
    shutil.rmtree(wt, ignore_errors=True)
    r = sh(f'git -C /repo worktree add --detach {wt} HEAD')
    if r.returncode:
        print(r.stderr)
        return None
    out = {'patch': os.path.relpath(patch, VERIF)}
    try:
        # also carry uncommitted changes of /repo's working tree
        r = sh(f'git -C /repo diff HEAD | git -C {wt} apply --allow-empty')
        demo = os.path.join(os.path.dirname(patch), 'demo.py')
        if os.path.exists(demo) and tests:
            os.makedirs(os.path.join(wt, '_out'), exist_ok=True)
            shutil.copy(demo, os.path.join(wt, '_out', '_demo.py'))
            for f in os.listdir(os.path.dirname(patch)):
                if f.endswith('.py') and f != 'demo.py':
                    shutil.copy(os.path.join(os.path.dirname(patch), f),
                                os.path.join(wt, '_out', f))
            r = sh(f'cd {wt} && /venv/bin/python -W ignore _out/_demo.py',
                   timeout=900)
            out['demo_clean_exit'] = r.returncode
        r = sh(f'git -C {wt} apply --3way {patch}')
        if r.returncode:
            r = sh(f'cd {wt} && patch -p1 < {patch}')
        if r.returncode:
            out['error'] = 'patch does not apply: ' + r.stderr[-300:]
            return out
        if os.path.exists(demo) and tests:
            r = sh(f'cd {wt} && /venv/bin/python -W ignore _out/_demo.py',
                   timeout=900)
            out['demo_patched_exit'] = r.returncode
        if tests:
            t0 = time.time()
            r = sh(f'cd {wt} && /venv/bin/python -W ignore -m pytest -q '
                   f'-p no:cacheprovider --timeout=900 -x tests 2>&1 | '
                   f'tail -3')
            out['tests'] = r.stdout.strip().splitlines()[-1:]
            out['tests_s'] = round(time.time() - t0)
        for pid in (props or props_of(patch)):
            for seed in seeds:
                t0 = time.time()
                r = sh(f'cd {VERIF} && VERIF_REPO={wt} VERIF_SEED={seed} '
                       f'VERIF_EVIDENCE_DIR=/tmp/vfm/evidence '
                       f'./check {pid} --tier {tier}')
                v = [ln for ln in r.stdout.splitlines()
                     if ln.startswith('VIOLATION')]
                first = [ln for ln in r.stdout.splitlines()
                         if ln.strip().startswith('violation:')][:1]
                out[f'{pid}/seed{seed}'] = {
                    'exit': r.returncode, 'violations': len(v),
                    'first': first[0].strip()[:300] if first else
                    r.stdout[-300:] + r.stderr[-300:],
                    's': round(time.time() - t0)}
    finally:
        sh(f'git -C /repo worktree remove --force {wt}')
        shutil.rmtree(wt, ignore_errors=True)
        sh('git -C /repo worktree prune')
    return out


def main():
    ap = argparse.ArgumentParser()
    ap.add_argument('patches', nargs='+')
    ap.add_argument('--tests', action='store_true')
    ap.add_argument('--seeds', default='0')
    ap.add_argument('--tier', default='quick')
    ap.add_argument('--props', default='')
    a = ap.parse_args()
    seeds = [int(s) for s in a.seeds.split(',')]
    ok = True
    for p in a.patches:
        res = run_one(p, a.tests, seeds, a.tier,
                      a.props.split(',') if a.props else None)
        print(json.dumps(res, indent=1))
        for k, v in (res or {}).items():
            if isinstance(v, dict) and v.get('exit') != 1:
                ok = False
    sys.exit(0 if ok else 3)


if __name__ == '__main__':
    main()
