"""./check <ID> [--tier quick|thorough] [--replay FILE]"""
from __future__ import annotations

import argparse
import importlib
import json
import os
import sys


def main() -> int:
    ap = argparse.ArgumentParser()
    ap.add_argument('pid')
    ap.add_argument('--tier', default=os.environ.get('VERIF_TIER', 'quick'),
                    choices=['quick', 'thorough'])
    ap.add_argument('--replay', default=None)
    a = ap.parse_args()
    seed = int(os.environ.get('VERIF_SEED', '0'))
    os.environ['VERIF_TIER'] = a.tier
    from vf import core

    core.bind_repo()
    import torch

    torch.set_num_threads(1)
    torch.use_deterministic_algorithms(True)
    torch.utils.deterministic.fill_uninitialized_memory = True
    mod = importlib.import_module(f'vf.checks.{a.pid.lower()}')
    run = core.Run(a.pid.upper(), a.tier, seed)
    if a.replay:
        data = json.load(open(a.replay))
        if not isinstance(data.get('detail'), dict):
            print('replay file carries no structured case (', data.get(
                'what', '')[:200], ')')
        else:
            mod.replay(run, data)
    else:
        mod.main(run)
    return run.finish()


if __name__ == '__main__':
    sys.exit(main())
