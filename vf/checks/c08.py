"""C08 - bucketed allreduce == per-tensor allreduce (see DESIGN.md 3/C08)."""
from __future__ import annotations

import itertools

import torch
import torch.distributed as dist

from vf import core, explore, simdist
from vf.digest import digest as _dg

F32, F64 = torch.float32, torch.float64
ESZ = {F32: 4, F64: 8}


# ------------------------------------------------------------------ worlds
def topo_groups(topo):
    """Ordered list of (name, ranks) every rank creates, and name->chooser."""
    if topo == 'w2':
        return 2, []
    if topo == 'w3':
        return 3, [('a01', [0, 1]), ('a02', [0, 2]), ('a12', [1, 2])]
    if topo == 'w4grid':
        return 4, [('row0', [0, 1]), ('row1', [2, 3]),
                   ('col0', [0, 2]), ('col1', [1, 3]), ('tri', [0, 1, 2])]
    raise AssertionError(topo)


def role_members(topo, role, rank):
    """Members of the group rank uses for `role`, or None if it sits out."""
    n, gl = topo_groups(topo)
    if role == 'W':
        return 'W', list(range(n))
    if topo == 'w3':
        # 'p': pair containing rank and its successor... use fixed pairs:
        # role 'x' -> a01 for ranks 0,1 ; role 'y' -> a02 for ranks 0,2
        name = {'x': 'a01', 'y': 'a02', 'z': 'a12'}[role]
    elif topo == 'w4grid':
        if role == 'row':
            name = 'row0' if rank < 2 else 'row1'
        elif role == 'col':
            name = 'col0' if rank % 2 == 0 else 'col1'
        else:
            name = 'tri'
    else:
        raise AssertionError(role)
    mem = dict(gl)[name]
    return (name, mem) if rank in mem else (None, None)


_DATA = {}


def data(rank, cycle, idx, shape, dtype, sym):
    """Position-revealing, rank-tagged, exactly representable."""
    k = (rank, cycle, idx, shape, dtype, sym)
    if k not in _DATA:
        _DATA[k] = _data(*k)
    return _DATA[k].clone()


def _data(rank, cycle, idx, shape, dtype, sym):
    n = 1
    for s in shape:
        n *= s
    pos = torch.arange(1, n + 1, dtype=torch.float64).reshape(shape)
    if sym and len(shape) == 2 and shape[0] == shape[1]:
        pos = torch.minimum(pos, pos.t()) * 16 + torch.maximum(pos, pos.t())
    t = pos + 512 * (idx + 1) + 4096 * (cycle + 1) + 2 ** (14 + rank)
    return t.to(dtype)


def expected(members, cycle, idx, shape, dtype, avg, sym):
    acc = data(members[0], cycle, idx, shape, dtype, sym).clone()
    for m in members[1:]:
        acc = acc + data(m, cycle, idx, shape, dtype, sym)
    if avg:
        acc = (1 / len(members)) * acc
    return acc


# ----------------------------------------------------------------- program
def make_program(cfg):
    topo, cap, seq, cycles = cfg['topo'], cfg['cap'], cfg['seq'], cfg['cycles']

    def program(rank, world):
        from kfac.distributed import TorchDistributedCommunicator, Future

        n, gl = topo_groups(topo)
        handles = {'W': None}
        for name, ranks in gl:
            handles[name] = dist.new_group(ranks)
        tdc = TorchDistributedCommunicator(bucket_cap_mb=(cap + 0.5) / 1e6)
        assert tdc.bucket_cap_bytes == cap, (tdc.bucket_cap_bytes, cap)
        out = []
        world.set_digest(lambda: _dg(out, tdc))
        for cycle in range(cycles):
            world.tag[rank] = ('bucketed', cycle)
            pend = []
            for i, op in enumerate(seq):
                if op == 'flush':
                    tdc.flush_allreduce_buckets()
                    world.point(('op', cycle, i))
                    continue
                shape, dtype, role, avg, sym = op
                name, mem = role_members(topo, role, rank)
                if name is None:
                    continue
                t = data(rank, cycle, i, shape, dtype, sym)
                t_in = t.clone()
                if len(shape) == 2 and shape[0] != shape[1]:
                    # non-square matrices are submitted as NON-CONTIGUOUS
                    # views (every other column of a wider buffer)
                    wide = torch.full((shape[0], 2 * shape[1]), -7.0,
                                      dtype=t.dtype)
                    t_in = wide[:, ::2]
                    t_in.copy_(t)
                fut = tdc.allreduce_bucketed(
                    t_in, average=avg, group=handles[name],
                    symmetric=sym)
                pend.append((i, fut, mem, op))
                # operation boundary: a completion (and its callbacks) may
                # land between any two calls of the user
                world.point(('op', cycle, i))
            world.point(('pre-flush', cycle))
            tdc.flush_allreduce_buckets()
            for i, fut, mem, op in pend:
                val = fut.wait() if isinstance(fut, Future) else fut
                out.append(('b', cycle, i, val))
            world.tag[rank] = ('reflush', cycle)
            tdc.flush_allreduce_buckets()  # must communicate nothing
            world.tag[rank] = ('ref', cycle)
            for i, fut, mem, op in pend:
                shape, dtype, role, avg, sym = op
                name, _ = role_members(topo, role, rank)
                t = data(rank, cycle, i, shape, dtype, sym)
                ref = tdc.allreduce(t.clone(), average=avg,
                                    group=handles[name], symmetric=sym)
                ref = ref.wait() if isinstance(ref, Future) else ref
                out.append(('r', cycle, i, ref))
        return out

    return program


def oracle_factory(cfg):
    topo, cap, seq = cfg['topo'], cfg['cap'], cfg['seq']

    def oracle(world):
        v = []
        for rank in range(world.n):
            out = world.results[rank]
            if out is None:
                v.append(('no-result', f'rank{rank} returned nothing'))
                continue
            got = {(k, c, i): val for k, c, i, val in out}
            for (kind, cycle, i), val in got.items():
                shape, dtype, role, avg, sym = seq[i]
                _, mem = role_members(topo, role, rank)
                exp = expected(mem, cycle, i, shape, dtype, avg, sym)
                what = 'bucketed' if kind == 'b' else 'unbucketed'
                if not isinstance(val, torch.Tensor):
                    v.append(('type', f'{what} result is {type(val)}'))
                elif val.dtype != exp.dtype:
                    v.append(('dtype', f'rank{rank} op{i} {what}: dtype '
                              f'{val.dtype} expected {exp.dtype}'))
                elif tuple(val.shape) != tuple(exp.shape):
                    v.append(('shape', f'rank{rank} op{i} {what}: shape '
                              f'{tuple(val.shape)} expected '
                              f'{tuple(exp.shape)}'))
                elif not torch.equal(val, exp):
                    v.append(('value', f'rank{rank} op{i} {what} '
                              f'role={role} avg={avg} sym={sym}: got '
                              f'{val.flatten().tolist()} expected '
                              f'{exp.flatten().tolist()}'))
            # trace-based: sent exactly once, capacity respected, clean flush
            tr = world.trace[rank]
            for cycle in range(cfg['cycles']):
                sent = {}
                for e in tr:
                    if e['tag'] == ('reflush', cycle):
                        v.append(('pending', f'rank{rank}: a second flush '
                                  f'communicated {e["kind"]} {e["sig"]}'))
                    if e['tag'] == ('bucketed', cycle):
                        if e['kind'] != 'all_reduce':
                            v.append(('kind', f'unexpected {e["kind"]}'))
                        sent.setdefault(e['ranks'], []).append(e)
                want = {}
                for i, op in enumerate(seq):
                    if op == 'flush':
                        for q in want.values():
                            q.append('flush')
                        continue
                    shape, dtype, role, avg, sym = op
                    name, mem = role_members(topo, role, rank)
                    if name is None or len(mem) == 1:
                        continue
                    numel = 1
                    for s in shape:
                        numel *= s
                    if sym:
                        numel = shape[0] * (shape[0] + 1) // 2
                    want.setdefault(tuple(sorted(mem)), []).append(
                        (numel, ESZ[dtype]))
                for ranks in set(sent) | set(want):
                    items = [x for x in want.get(ranks, []) if x != 'flush']
                    tot = sum(x[0] for x in items)
                    got_tot = sum(e['numel'] for e in sent.get(ranks, []))
                    if tot != got_tot:
                        v.append(('once', f'rank{rank} cycle{cycle} group '
                                  f'{ranks}: {got_tot} elements communicated'
                                  f', {tot} submitted'))
                        continue
                    # split the submitted sequence into the fused buffers
                    # (a buffer of 0 elements carries the zero-element tensors
                    # submitted at that point; zero-element tensors met while
                    # filling a non-empty buffer were fused into it)
                    pend = list(items)
                    for e in sent.get(ranks, []):
                        left, nb, cnt = e['numel'], 0, 0
                        if left == 0:
                            while pend and pend[0][0] == 0:
                                pend.pop(0)
                                cnt += 1
                            if cnt == 0:
                                left = -1
                        while left > 0:
                            if not pend:
                                left = -1
                                break
                            ne, es = pend.pop(0)
                            left -= ne
                            nb += ne * es
                            # where a zero-element tensor travelled cannot
                            # be read off the trace; it adds no bytes, so
                            # only non-empty tensors count as sharing
                            cnt += 1 if ne else 0
                        if left != 0:
                            v.append(('once', f'rank{rank}: fused buffer of '
                                      f'{e["numel"]} elements is not a run '
                                      f'of submitted tensors'))
                            break
                        if nb > cap and cnt > 1:
                            v.append(('capacity', f'rank{rank}: a fused '
                                      f'buffer holds {cnt} tensors / {nb} '
                                      f'bytes > capacity {cap}'))
        return v

    return oracle


def outcome(world):
    return explore.digest([
        [(k, c, i, v.tolist(), str(v.dtype)) for k, c, i, v in (out or [])]
        for out in world.results])


# ------------------------------------------------------------ enumeration
def alphabet(topo, rich):
    if topo == 'w2':
        roles = ['W']
    elif topo == 'w3':
        roles = ['W', 'x', 'y'] + (['z'] if rich else [])
    else:
        roles = ['W', 'row', 'col'] + (['tri'] if rich else [])
    if topo == 'w2' or rich:
        tens = [((1,), F32), ((2, 2), F32), ((2, 3), F32), ((2, 2), F64)]
    else:
        tens = [((2, 2), F32), ((1,), F64)]
    ops = []
    for (shape, dt), role in itertools.product(tens, roles):
        flags = [(False, False), (True, False)]
        if len(shape) == 2 and shape[0] == shape[1]:
            flags.append((True, True))
        for avg, sym in flags:
            ops.append((shape, dt, role, avg, sym))
    if topo == 'w2':
        # a zero-element tensor (0 bytes, yet it occupies the bucket and
        # fixes its dtype)
        ops.append(((0,), F32, 'W', False, False))
    return ops + ['flush']


def classify(cfg):
    """Non-triviality: >=2 tensors that can interact through one bucket."""
    seq = [o for o in cfg['seq'] if o != 'flush']
    return len(seq) >= 2


def cfg_key(cfg):
    def s(o):
        if o == 'flush':
            return 'flush'
        shape, dt, role, avg, sym = o
        return (f"{'x'.join(map(str, shape))}{'d' if dt == F64 else 's'}"
                f"@{role}{'a' if avg else ''}{'t' if sym else ''}")
    return f"{cfg['topo']}/cap{cfg['cap']}/" + ','.join(s(o) for o in cfg['seq'])


def finding_key(cfg, kinds):
    """Key used for known-finding matching: failing feature, not the case."""
    seq = [o for o in cfg['seq'] if o != 'flush']
    dts = {o[1] for o in seq}
    roles = {o[2] for o in seq}
    feats = []
    if len(dts) > 1:
        feats.append('mixed-dtype')
    sizes = {}
    for r in roles:
        _, mem = role_members(cfg['topo'], r, 0)
        if mem is None:
            _, mem = role_members(cfg['topo'], r, cfg_n(cfg) - 1)
        sizes.setdefault(len(mem or []), set()).add(r)
    if any(len(v) > 1 for v in sizes.values()):
        feats.append('equal-size-groups')
    return f"{'+'.join(sorted(kinds))}:{'+'.join(feats) or 'plain'}:" + \
        cfg_key(cfg)


def cfg_n(cfg):
    return topo_groups(cfg['topo'])[0]


def run_cfg(part, item):
    cfg, mode = item
    n = cfg_n(cfg)
    prog = make_program(cfg)
    orc = oracle_factory(cfg)
    viols = []
    if mode == 'fixed':
        for sname in cfg.get('schedules', ('S0-lowest-eager',
                                           'S3-lowest-lazy-poison')):
            w = simdist.run_world(n, prog, sname)
            part.count('executions')
            part.count('transitions', w.stats['points'])
            part.count('states', w.stats['points'] + 1)
            vs = [(k, t) for k, t in w.violations]
            vs += [('exception', f'rank{r}: {e[0]}')
                   for r, e in enumerate(w.errors)
                   if e and e[0] != 'SimViolation']
            if not vs:
                vs = orc(w)
            viols += [(k, f'[{sname}] {t}') for k, t in vs]
    else:
        if mode.startswith('fine'):
            # completions may land between any two LINES of the
            # communicator (they run on another thread in real backends):
            # all schedules with <= d such deviations from lazy delivery
            explore.FINE['files'] = ('kfac/distributed.py',)
            try:
                res = explore.explore_bounded(
                    n, prog, bound=int(mode[4:]), delivery='free',
                    oracle=orc, outcome=outcome, max_exec=40000,
                    max_seconds=600)
            finally:
                explore.FINE['files'] = ()
        else:
            res = explore.explore(n, prog, delivery=mode, oracle=orc,
                                  outcome=outcome, max_states=20000)
        part.count('executions', res.executions)
        part.count('states', res.states)
        part.count('transitions', res.transitions)
        part.count('explorations')
        part.count('terminals', res.terminals)
        part.count('branching_states', res.branching_states)
        part.count('multi_history_vectors', res.multi_history_vectors)
        if res.capped:
            part.cap(f'max_states hit for {cfg_key(cfg)}')
        if len(res.outcomes) > 1:
            viols.append(('outcomes', f'{len(res.outcomes)} distinct '
                          f'terminal outcomes over interleavings'))
        part.count('max_outcomes', 0)
        viols += [(k, f'{t} [schedule={s}]') for k, t, s in res.violations]
        part.sample({'exploration': cfg_key(cfg), **res.as_dict()}, limit=2)
    if classify(cfg):
        part.seen('nontrivial_programs', cfg_key(cfg))
    part.seen('programs', cfg_key(cfg))
    if viols:
        kinds = {k for k, _ in viols}
        part.violation(finding_key(cfg, kinds), viols[0][1],
                       {'cfg': cfg_to_json(cfg), 'mode': mode,
                        'all': [t for _, t in viols[:5]]})


def cfg_to_json(cfg):
    def o2j(o):
        return o if o == 'flush' else [list(o[0]),
                                       'f64' if o[1] == F64 else 'f32',
                                       o[2], o[3], o[4]]
    return {'topo': cfg['topo'], 'cap': cfg['cap'], 'cycles': cfg['cycles'],
            'seq': [o2j(o) for o in cfg['seq']]}


def cfg_from_json(j):
    def j2o(o):
        return o if o == 'flush' else (tuple(o[0]),
                                       F64 if o[1] == 'f64' else F32,
                                       o[2], o[3], o[4])
    return {'topo': j['topo'], 'cap': j['cap'], 'cycles': j['cycles'],
            'seq': [j2o(o) for o in j['seq']]}


def sequences(ops, maxlen):
    for L in range(1, maxlen + 1):
        for seq in itertools.product(ops, repeat=L):
            if seq[-1] == 'flush':
                continue  # the program flushes at the end anyway
            if all(o == 'flush' for o in seq):
                continue
            yield list(seq)


def main(run: core.Run):
    thorough = run.tier == 'thorough'
    # capacities: below one tensor, exactly one 2x2 f32 (16B), two of them,
    # one f32 + one f64 matrix (48B), unbounded
    caps = [1, 16, 32, 48, 10 ** 6]
    items = []
    for topo in ('w2', 'w3', 'w4grid'):
        ops = alphabet(topo, rich=False if topo != 'w2' else True)
        maxlen = 3
        if thorough and topo != 'w2':
            ops = alphabet(topo, rich=True)
        seqs = list(sequences(ops, maxlen))
        if thorough and topo != 'w2':
            # rich alphabets: all sequences up to length 2, every 16th of
            # length 3 (rotating with the seed)
            seqs = [s for s in seqs if len(s) <= 2] + \
                [s for s in seqs if len(s) == 3][run.seed % 16::16]
            run.cap('thorough: every 16th length-3 sequence for the rich '
                    'w3 / w4grid alphabets')
        if not thorough:
            # quick: all sequences up to length 2, and length-3 sequences
            # rotated by the seed so that several seeds cover them all
            short = [s for s in seqs if len(s) <= 2]
            long_ = [s for s in seqs if len(s) == 3]
            k = 16 if topo == 'w2' else 12
            long_ = long_[run.seed % k::k]
            seqs = short + long_
            run.notes.setdefault('quick_len3_stride', {})[topo] = k
        for seq in seqs:
            for cap in caps:
                c = {'topo': topo, 'cap': cap, 'seq': seq, 'cycles': 2}
                if thorough:
                    c['schedules'] = tuple(simdist.FIXED_SCHEDULES)
                items.append((c, 'fixed'))
    # exhaustive interleavings incl. completion time (free delivery)
    small = [((2, 2), F32, 'W', True, False), ((1,), F32, 'W', False, False),
             ((2, 2), F32, 'W', True, True), ((2, 2), F64, 'W', False, False),
             'flush']
    for topo in ('w2', 'w3'):
        seqs = list(sequences(small, 3 if (thorough or topo == 'w2') else 2))
        if not thorough:
            seqs = [s for s in seqs if len(s) <= 2] + \
                [s for s in seqs if len(s) == 3][run.seed % 5::5]
        for seq in seqs:
            for cap in ((16, 32, 10 ** 6) if thorough and topo == 'w2' else
                        (16, 10 ** 6) if thorough or topo == 'w2' else
                        (16,)):
                items.append(({'topo': topo, 'cap': cap, 'seq': seq,
                               'cycles': 2 if thorough and topo == 'w2'
                               else 1}, 'free'))
    # fine-grained completion points (deviation-bounded)
    for topo in ('w2',) + (('w3',) if thorough else ()):
        seqs = list(sequences(small, 3))
        if not thorough:
            seqs = [s for s in seqs if len(s) <= 2] + \
                [s for s in seqs if len(s) == 3][run.seed % 8::8]
        for seq in seqs:
            for cap in ((16, 10 ** 6) if thorough else (16,)):
                items.append(({'topo': topo, 'cap': cap, 'seq': seq,
                               'cycles': 2}, 'fine2' if thorough and
                              topo == 'w2' and len(seq) <= 2 else 'fine1'))
    if thorough:
        grid = [((2, 2), F32, 'row', True, False),
                ((2, 2), F32, 'col', False, False),
                ((1,), F32, 'W', True, False), 'flush']
        for seq in sequences(grid, 3):
            items.append(({'topo': 'w4grid', 'cap': 32, 'seq': seq,
                           'cycles': 1}, 'eager'))
    run.rule = (
        'programs = (topology, bucket capacity in bytes, sequence of <=3 '
        'allreduce_bucketed/flush operations, 2 fill/flush cycles) run on '
        'the real TorchDistributedCommunicator in a simulated world; '
        'mode fixed = 3 schedules (lowest-first eager, lazy+NaN poisoning, '
        'round-robin), mode free/eager = exhaustive interleavings incl. '
        'completion times at operation boundaries; mode fine<d> = all '
        'schedules with <= d deviations where a completion may land between '
        'any two LINES of kfac/distributed.py; non-trivial = program submits >=2 tensors')
    run.assumptions += [
        'simdist models per-group FIFO matching of gloo/NCCL; CPU tensors',
        'values are position-revealing integers (exact in f32/f64); '
        'other values not explored',
    ]
    core.pmap(run, run_cfg, items,
              weight=lambda it: (1 if it[1] == 'fixed' else 60)
              * cfg_n(it[0]) * (1 + len(it[0]['seq'])))
    run.c['evaluations'] = run.c.get('executions', 0)
    run.c['distinct_nontrivial'] = len(
        run.distinct.get('nontrivial_programs', ()))
    run.sample({'program': cfg_key(items[len(items) // 3][0]),
                'mode': items[len(items) // 3][1]})
    run.sample({'program': cfg_key(items[-1][0]), 'mode': items[-1][1]})
    run.exhaustive = thorough and not run.caps
    run.notes['programs_fixed_schedules'] = sum(
        1 for _, m in items if m == 'fixed')
    run.notes['programs_exhaustive_interleavings'] = sum(
        1 for _, m in items if m != 'fixed')


def replay(run: core.Run, data):
    d = data['detail']
    cfg = cfg_from_json(d['cfg'])
    part = core.Part()
    run_cfg(part, (cfg, d['mode']))
    run.merge(part.dump())
