"""C15 - layer helpers keep factors, gradients and weights in one layout."""
from __future__ import annotations

import itertools

import torch
import torch.nn.functional as F

from vf import core

F64 = torch.float64


def reveal(shape, base, seed=0):
    """Unique small integers (exact in float64 products/sums)."""
    n = 1
    for s in shape:
        n *= s
    t = torch.arange(n, dtype=F64).reshape(shape)
    return (t * 3 + base + seed) % 97 + 1 + (t % 5)


def unique_ints(shape, base):
    n = 1
    for s in shape:
        n *= s
    return (torch.arange(n, dtype=F64) + base).reshape(shape)


def conv_case(part, item):
    (cin, cout, kh, kw, sh, sw, ph, pw, dh, dw, bias, batch, seed) = item
    from kfac.layers.modules import Conv2dModuleHelper

    H, W = kh + dh, kw + dw
    key = (f'conv cin={cin} cout={cout} k=({kh},{kw}) s=({sh},{sw}) '
           f'p=({ph},{pw}) in=({H},{W}) bias={bias} batch={batch}')
    det = {'kind': 'conv', 'item': list(item)}
    part.count('evaluations')

    def bad(kind, text):
        part.violation(f'conv:{kind}', f'{key}: {text}', det)

    m = torch.nn.Conv2d(cin, cout, (kh, kw), stride=(sh, sw),
                        padding=(ph, pw), bias=bias).to(F64)
    with torch.no_grad():
        m.weight.copy_(reveal(m.weight.shape, 7, seed))
        if bias:
            m.bias.copy_(reveal(m.bias.shape, 3, seed))
    h = Conv2dModuleHelper(m)
    x = unique_ints((batch, cin, H, W), 1 + seed)
    try:
        # 1. patch extraction == the convolution's own unfolding
        unf = F.unfold(x, (kh, kw), padding=(ph, pw), stride=(sh, sw))
        oh = (H + 2 * ph - kh) // sh + 1
        ow = (W + 2 * pw - kw) // sw + 1
        L = oh * ow
        D = cin * kh * kw
        exp_p = unf.transpose(1, 2).reshape(batch, oh, ow, D)
        got_p = h._extract_patches(x.clone())
        if tuple(got_p.shape) != tuple(exp_p.shape) or \
                not torch.equal(got_p, exp_p):
            bad('patches', f'_extract_patches {tuple(got_p.shape)} differs '
                f'from F.unfold {tuple(exp_p.shape)}')
            return
        # 2. combined gradient == sum of outer products in unfold order
        xin = x.clone().requires_grad_(False)
        y = m(xin)
        if tuple(y.shape) != (batch, cout, oh, ow):
            bad('harness', f'output shape {tuple(y.shape)}')
            return
        gy = reveal(y.shape, 11, seed)
        m.zero_grad()
        y.backward(gy)
        rows = unf.transpose(1, 2).reshape(batch * L, D)
        if bias:
            rows = torch.cat([rows, torch.ones(batch * L, 1, dtype=F64)], 1)
        gyr = gy.reshape(batch, cout, L).transpose(1, 2).reshape(
            batch * L, cout)
        exp_g = gyr.t() @ rows
        got_g = h.get_grad()
        if tuple(got_g.shape) != tuple(exp_g.shape) or \
                not torch.equal(got_g, exp_g):
            bad('get_grad', f'get_grad() {tuple(got_g.shape)} is not the sum '
                f'of (output-gradient row) x (patch row | 1)')
            return
        # 3. set_grad / get_grad identity and parameter views
        M = unique_ints(exp_g.shape, 1000 + seed)
        wg_before = m.weight.grad
        h.set_grad(M.clone())
        back = h.get_grad()
        if not torch.equal(back, M):
            bad('set_get', 'set_grad(M); get_grad() != M')
            return
        wexp = M[:, :D].reshape(m.weight.shape)
        if m.weight.grad.shape != m.weight.shape or \
                not torch.equal(m.weight.grad, wexp) or \
                not m.weight.grad.is_contiguous():
            bad('weight_view', 'weight.grad is not M[:, :D] in weight layout')
            return
        if bias and (m.bias.grad.shape != m.bias.shape or not torch.equal(
                m.bias.grad, M[:, D]) or not m.bias.grad.is_contiguous()):
            bad('bias_view', 'bias.grad is not the last column of M')
            return
        # 4/5. factor shapes and moments
        A = h.get_a_factor(x.clone())
        G = h.get_g_factor(gy.clone())
        if tuple(A.shape) != tuple(h.a_factor_shape) or \
                tuple(G.shape) != tuple(h.g_factor_shape) or \
                tuple(A.shape) != (rows.shape[1],) * 2 or \
                tuple(G.shape) != (cout, cout):
            bad('factor_shape', f'A {tuple(A.shape)} advertised '
                f'{h.a_factor_shape}; G {tuple(G.shape)} advertised '
                f'{h.g_factor_shape}')
            return
        ra = rows / L
        Aref = ra.t() @ ra / (batch * L)
        rg = gyr / L
        Gref = rg.t() @ rg / (batch * L)
        for nm, got, ref in (('A', A, Aref), ('G', G, Gref)):
            err = (got - ref).abs().max().item()
            if not err <= 1e-9 * max(1.0, ref.abs().max().item()):
                bad(f'moment_{nm}', f'{nm} factor differs from the reference '
                    f'second moment by {err:.3e}')
                return
            if not torch.equal(got, got.t()):
                bad(f'symmetry_{nm}', f'{nm} factor not exactly symmetric')
                return
        # 6. the helper is a function of its input: the same helper fed a
        # LARGER input first (other resolution, other batch) must give the
        # same answers for x afterwards
        big = unique_ints((batch + 1, cin, H + 3, W + 2), 5 + seed) + 1000
        h._extract_patches(big.clone())
        h.get_a_factor(big.clone())
        again_p = h._extract_patches(x.clone())
        again_a = h.get_a_factor(x.clone())
        if not torch.equal(again_p, exp_p) or not torch.equal(again_a, A):
            bad('history', 'patches / A factor of the same input differ '
                'after the helper had processed a larger input')
            return
    except Exception as e:  # noqa
        bad(f'exception:{type(e).__name__}', str(e)[:200])
        return
    if L > 1 and D > 1:
        part.seen('nontrivial', item[:12])


def linear_case(part, item):
    fin, fout, lead, bias, seed = item
    from kfac.layers.modules import LinearModuleHelper

    key = f'linear in={fin} out={fout} lead={lead} bias={bias}'
    det = {'kind': 'linear', 'item': [fin, fout, list(lead), bias, seed]}
    part.count('evaluations')

    def bad(kind, text):
        part.violation(f'linear:{kind}', f'{key}: {text}', det)

    m = torch.nn.Linear(fin, fout, bias=bias).to(F64)
    with torch.no_grad():
        m.weight.copy_(reveal(m.weight.shape, 7, seed))
        if bias:
            m.bias.copy_(reveal(m.bias.shape, 3, seed))
    h = LinearModuleHelper(m)
    try:
        x = unique_ints(tuple(lead) + (fin,), 1 + seed)
        y = m(x)
        gy = reveal(y.shape, 11, seed)
        m.zero_grad()
        y.backward(gy)
        rows = x.reshape(-1, fin)
        n = rows.shape[0]
        if bias:
            rows = torch.cat([rows, torch.ones(n, 1, dtype=F64)], 1)
        gyr = gy.reshape(-1, fout)
        exp_g = gyr.t() @ rows
        got_g = h.get_grad()
        if tuple(got_g.shape) != tuple(exp_g.shape) or \
                not torch.equal(got_g, exp_g):
            bad('get_grad', 'get_grad() is not sum of gy_row x (x_row | 1)')
            return
        M = unique_ints(exp_g.shape, 500 + seed)
        h.set_grad(M.clone())
        if not torch.equal(h.get_grad(), M):
            bad('set_get', 'set_grad(M); get_grad() != M')
            return
        if not torch.equal(m.weight.grad, M[:, :fin]) or \
                m.weight.grad.shape != m.weight.shape or \
                not m.weight.grad.is_contiguous():
            bad('weight_view', 'weight.grad is not M[:, :in]')
            return
        if bias and (not torch.equal(m.bias.grad, M[:, fin])
                     or m.bias.grad.shape != m.bias.shape
                     or not m.bias.grad.is_contiguous()):
            bad('bias_view', 'bias.grad is not the last column of M')
            return
        A = h.get_a_factor(x.clone())
        G = h.get_g_factor(gy.clone())
        if tuple(A.shape) != tuple(h.a_factor_shape) or \
                tuple(G.shape) != tuple(h.g_factor_shape) or \
                tuple(A.shape) != (rows.shape[1],) * 2 or \
                tuple(G.shape) != (fout, fout):
            bad('factor_shape', f'A {tuple(A.shape)} advertised '
                f'{h.a_factor_shape}; G {tuple(G.shape)} advertised '
                f'{h.g_factor_shape}')
            return
        Aref = rows.t() @ rows / n
        Gref = gyr.t() @ gyr / n
        for nm, got, ref in (('A', A, Aref), ('G', G, Gref)):
            err = (got - ref).abs().max().item()
            if not err <= 1e-9 * max(1.0, ref.abs().max().item()):
                bad(f'moment_{nm}', f'{nm} factor differs from the reference '
                    f'by {err:.3e}')
                return
            if not torch.equal(got, got.t()):
                bad(f'symmetry_{nm}', f'{nm} factor not exactly symmetric')
                return
    except Exception as e:  # noqa
        bad(f'exception:{type(e).__name__}', str(e)[:200])
        return
    if fin > 1 and fout > 1:
        part.seen('nontrivial', ('lin', fin, fout, tuple(lead), bias))


def main(run: core.Run):
    thorough = run.tier == 'thorough'
    ch = (1, 2, 3) if thorough else (1, 2)
    st = (1, 2, 3) if thorough else (1, 2)
    pd = (0, 1, 2) if thorough else (0, 1)
    ks = (1, 2, 3)
    conv = []
    for cin, cout, kh, kw, sh, sw, ph, pw, dh, dw, bias, batch in \
            itertools.product(ch, ch, ks, ks, st, st, pd, pd, range(5),
                              range(5), (True, False), (1, 2)):
        if thorough and cin == 3 and cout == 3 and batch == 2 and \
                (dh > 2 or dw > 2):
            continue
        conv.append((cin, cout, kh, kw, sh, sw, ph, pw, dh, dw, bias, batch,
                     run.seed))
    core.pmap(run, conv_case, conv, chunk=400)
    lin = []
    leads = [(1,), (3,), (2, 3), (1, 2), (2, 1, 3), (2, 2, 2)]
    for fin, fout in itertools.product(range(1, 5), repeat=2):
        for lead in leads:
            for bias in (True, False):
                lin.append((fin, fout, lead, bias, run.seed))
    core.pmap(run, linear_case, lin, chunk=50)
    run.c['states'] = run.c.get('evaluations', 0)
    run.c['transitions'] = run.c.get('evaluations', 0)
    run.c['distinct_nontrivial'] = len(run.distinct.get('nontrivial', ()))
    run.rule = (
        f'conv box: in/out channels {ch}, kernels {{1,2,3}}^2, strides '
        f'{st}^2, zero paddings {pd}^2, input H,W = kernel+0..4, bias on/off,'
        ' batch {1,2}; linear: in/out 1..4, input rank 2-4, bias on/off; '
        'position-revealing integer data in float64 so that patch '
        'extraction vs F.unfold, get_grad vs the independent sum of outer '
        'products and the set/get round trip are compared bit-exactly; '
        'factors vs float64 reference moments; non-trivial = more than one '
        'output position and patch width > 1')
    run.sample({'conv': list(conv[len(conv) // 2])})
    run.sample({'linear': [3, 2, [2, 1, 3], True]})
    run.assumptions += ['dilation 1, groups 1, zero padding only (as the '
                        'property states)', 'float64 parameters for exact '
                        'integer arithmetic; dtype handling is C01/C04/C10']


def replay(run, data):
    d = data['detail']
    part = core.Part()
    if d['kind'] == 'conv':
        conv_case(part, tuple(d['item']))
    else:
        it = d['item']
        linear_case(part, (it[0], it[1], tuple(it[2]), it[3], it[4]))
    run.merge(part.dump())
