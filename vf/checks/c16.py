"""C16 - exactly the eligible layers are registered, once each."""
from __future__ import annotations

import itertools
import re

import torch
from torch import nn

from vf import core


class SubLinear(nn.Linear):
    pass


class LinWithChild(nn.Linear):
    def __init__(self):
        super().__init__(3, 2)
        self.act = nn.ReLU()


class LinNoneSlot(nn.Linear):
    """A true leaf whose optional sub-module slot is registered as None."""

    def __init__(self):
        super().__init__(3, 2)
        self.register_module('dropout', None)


class GainLinear(nn.Linear):
    """A supported type with an extra parameter of its own (frozen here:
    not all of its parameters require gradients)."""

    def __init__(self):
        super().__init__(3, 2)
        self.gain = nn.Parameter(torch.ones(2), requires_grad=False)


class Outer:
    class Proj(nn.Linear):
        """A supported layer class declared inside another class: its
        __name__ is 'Proj', its __qualname__ 'Outer.Proj'."""

        def __init__(self):
            super().__init__(3, 2)


class Box(nn.Module):
    def __init__(self, kids):
        super().__init__()
        for n, k in zip('abcde', kids):
            setattr(self, n, k)


LEAVES = ['Lin', 'LinNB', 'SubLin', 'LinChild', 'Conv2d', 'Conv1d', 'ReLU',
          'Frozen', 'HalfFrozen', 'Shared', 'Emb', 'BN', 'NoneSlot', 'TiedF', 'GainF', 'Proj']
CONTAINERS = ['Seq', 'Dict', 'Box', 'Mod']


def mk_leaf(kind, shared):
    if kind == 'Lin':
        return nn.Linear(3, 2)
    if kind == 'LinNB':
        return nn.Linear(3, 2, bias=False)
    if kind == 'SubLin':
        return SubLinear(3, 2)
    if kind == 'LinChild':
        return LinWithChild()
    if kind == 'NoneSlot':
        return LinNoneSlot()
    if kind == 'Conv2d':
        return nn.Conv2d(1, 2, 2)
    if kind == 'Conv1d':
        return nn.Conv1d(1, 2, 2)
    if kind == 'ReLU':
        return nn.ReLU()
    if kind == 'Frozen':
        m = nn.Linear(3, 2)
        for p in m.parameters():
            p.requires_grad_(False)
        return m
    if kind == 'HalfFrozen':
        m = nn.Linear(3, 2)
        m.bias.requires_grad_(False)
        return m
    if kind == 'Shared':
        return shared
    if kind == 'GainF':
        return GainLinear()
    if kind == 'Proj':
        return Outer.Proj()
    if kind == 'TiedF':
        # distinct instances sharing one frozen weight parameter (tied
        # weights): named_parameters() reports it under the first owner only
        m = nn.Linear(3, 2)
        m.weight = tied_of(shared)
        return m
    if kind == 'Emb':
        return nn.Embedding(4, 2)
    if kind == 'BN':
        return nn.BatchNorm2d(2)
    raise AssertionError(kind)


def tied_of(shared):
    if '_vf_tied' not in shared.__dict__:
        shared.__dict__['_vf_tied'] = nn.Parameter(torch.zeros(2, 3),
                                                   requires_grad=False)
    return shared.__dict__['_vf_tied']


def build(tree, shared):
    if isinstance(tree, str):
        return mk_leaf(tree, shared)
    kind, kids = tree
    mods = [build(k, shared) for k in kids]
    if kind == 'Seq':
        return nn.Sequential(*mods)
    if kind == 'Dict':
        return nn.ModuleDict(dict(zip(['x', 'y', 'z', 'u', 'v'], mods)))
    if kind == 'Mod':
        # children called 'module', 'fc', ... (the name DDP wrappers use)
        return nn.ModuleDict(dict(zip(['module', 'fc', 'out', 'm3', 'm4'],
                                      mods)))
    return Box(mods)


def shapes(n):
    """Ordered tree shapes with n nodes; leaf = None, node = tuple."""
    if n == 1:
        yield None
        return
    # root is a container with children whose sizes sum to n-1
    def comps(total):
        if total == 0:
            yield ()
            return
        for first in range(1, total + 1):
            for rest in comps(total - first):
                yield (first,) + rest
    for sizes in comps(n - 1):
        for kids in itertools.product(*[list(shapes(s)) for s in sizes]):
            yield tuple(kids)


def labelings(shape, leaves):
    if shape is None:
        for lf in leaves:
            yield lf
        return
    for c in CONTAINERS:
        for kids in itertools.product(*[list(labelings(k, leaves))
                                        for k in shape]):
            yield (c, list(kids))


def ref_registration(model, skip):
    seen, out = set(), []

    def walk(mod, name):
        if id(mod) in seen:
            return
        seen.add(id(mod))
        kids = [(n, m) for n, m in mod._modules.items() if m is not None]
        if not kids:
            if (isinstance(mod, (nn.Linear, nn.Conv2d))
                    and all(p.requires_grad for p in mod.parameters())
                    and not any(re.search(p, name) for p in skip)
                    and not any(re.search(p, type(mod).__name__)
                                for p in skip)):
                out.append((name, mod))
        for n, m in kids:
            walk(m, f'{name}.{n}' if name else n)

    walk(model, '')
    return out


def tree_case(part, item):
    tree, skips = item
    from kfac.preconditioner import KFACPreconditioner

    for skip in skips:
        shared = nn.Linear(3, 2)
        model = build(tree, shared)
        part.count('evaluations')
        det = {'tree': tree, 'skip': skip}
        try:
            p = KFACPreconditioner(model, skip_layers=list(skip))
        except Exception as e:  # noqa
            part.violation(f'exception:{type(e).__name__}',
                           f'tree={tree} skip={skip}: {e}', det)
            continue
        got = [(name, mod) for mod, (name, _) in p._layers.items()]
        exp = ref_registration(model, skip)
        gs = sorted((n, id(m)) for n, m in got)
        es = sorted((n, id(m)) for n, m in exp)
        if len({id(m) for _, m in got}) != len(got):
            part.violation('registered-twice', f'tree={tree} skip={skip}: '
                           f'{[n for n, _ in got]}', det)
            continue
        if gs != es:
            part.violation(
                'registered-set',
                f'tree={tree} skip={skip}: registered '
                f'{sorted(n for n, _ in got)} expected '
                f'{sorted(n for n, _ in exp)}', det)
            continue
        reg = {id(m) for _, m in exp}
        for name, mod in model.named_modules():
            nf, nb = len(mod._forward_pre_hooks), len(mod._backward_hooks)
            want = 1 if id(mod) in reg else 0
            if nf != want or nb != want or len(mod._forward_hooks) != 0:
                part.violation(
                    'hooks', f'tree={tree} skip={skip}: module {name!r} has '
                    f'{nf} forward-pre / {nb} backward hooks, expected '
                    f'{want}', det)
                break
        if len(exp) >= 1 and len(list(model.modules())) - len(exp) >= 1:
            part.seen('nontrivial', (repr(tree), tuple(skip)))
        # the SAME model instance edited (first child replaced by a new
        # layer, one layer added) and registered again: the second
        # registration must see the tree as it is now
        kids = list(model._modules.items())
        if skip == skips[0] and kids and not isinstance(tree, str):
            setattr(model, kids[0][0], nn.Linear(3, 2)) if not isinstance(
                model, (nn.Sequential, nn.ModuleDict)) else \
                model.__setitem__(0 if isinstance(model, nn.Sequential)
                                  else kids[0][0], nn.Linear(3, 2))
            model.add_module('zz_new', nn.Conv2d(1, 2, 2))
            part.count('evaluations')
            try:
                p2 = KFACPreconditioner(model, skip_layers=list(skip))
            except Exception as e:  # noqa
                part.violation(f'exception:{type(e).__name__}',
                               f'tree={tree} re-registration: {e}', det)
                continue
            got2 = sorted((name, id(mod))
                          for mod, (name, _) in p2._layers.items())
            exp2 = sorted((n, id(m)) for n, m in ref_registration(model,
                                                                   skip))
            if got2 != exp2:
                part.violation(
                    'registered-set',
                    f'tree={tree} skip={skip}: after replacing the first '
                    f'child and adding a layer, a second registration of '
                    f'the same model registered {[n for n, _ in got2]} '
                    f'expected {[n for n, _ in exp2]}', det)


SKIPS = [(), ('linear',), ('Linear',), ('^0$',), ('1',), (r'\.0$',),
         ('Conv',), ('a|b',), ('^$',), ('x', 'Sub'), (r'^a\.', 'Conv2d'),
         ('y$', '^Lin'), ('^Proj$',), ('Outer',), (r'^module\.',),
         ('^fc$',)]


# ------------------------------------------------------------- GPT-NeoX
class ColumnParallelLinear(nn.Linear):
    pass


class RowParallelLinear(nn.Linear):
    pass


GPT_LEAVES = ['Col', 'Row', 'Lin', 'FrozenCol', 'ReLU', 'SharedRow',
              'HalfFrozenRow', 'TiedFRow']
GPT_SKIPS = [(), ('column',), ('Column',), ('parallel',), ('^0$',),
             ('ColumnParallelLinear',), (r'\.1$', 'row'), ('a|x',),
             ('linear$',)]


def gpt_leaf(kind, shared):
    if kind == 'Col':
        return ColumnParallelLinear(3, 2)
    if kind == 'Row':
        return RowParallelLinear(3, 2, bias=False)
    if kind == 'Lin':
        return nn.Linear(3, 2)
    if kind == 'FrozenCol':
        m = ColumnParallelLinear(3, 2)
        for p in m.parameters():
            p.requires_grad_(False)
        return m
    if kind == 'HalfFrozenRow':
        m = RowParallelLinear(3, 2)
        m.bias.requires_grad_(False)
        return m
    if kind == 'ReLU':
        return nn.ReLU()
    if kind == 'TiedFRow':
        m = RowParallelLinear(3, 2)
        m.weight = tied_of(shared)
        return m
    return shared


def gpt_build(tree, shared):
    if isinstance(tree, str):
        return gpt_leaf(tree, shared)
    kind, kids = tree
    mods = [gpt_build(k, shared) for k in kids]
    if kind == 'Seq':
        return nn.Sequential(*mods)
    if kind == 'Dict':
        return nn.ModuleDict(dict(zip(['x', 'y', 'z', 'u', 'v'], mods)))
    return Box(mods)


def gpt_ref(model, skip):
    seen, out = set(), []

    def walk(mod, name):
        if id(mod) in seen:
            return
        seen.add(id(mod))
        kids = [(n, m) for n, m in mod._modules.items() if m is not None]
        if not kids:
            cls = type(mod).__name__
            if (cls.lower() in ('columnparallellinear', 'rowparallellinear')
                    and all(p.requires_grad for p in mod.parameters())
                    and not any(re.search(p, name) for p in skip)
                    and not any(re.search(p, cls) or re.search(p, cls.lower())
                                for p in skip)):
                out.append((name, mod))
        for n, m in kids:
            walk(m, f'{name}.{n}' if name else n)

    walk(model, '')
    return out


def gpt_case(part, item):
    tree, skips = item
    from vf import gptenv

    gptenv.install()
    from kfac.distributed import TorchDistributedCommunicator
    from kfac.gpt_neox.preconditioner import register_modules

    for skip in skips:
        shared = RowParallelLinear(3, 2)
        model = gpt_build(tree, shared)
        part.count('evaluations')
        det = {'tree': tree, 'skip': skip, 'gpt': True}
        try:
            layers = register_modules(
                model, model_parallel_group=None, skip_layers=list(skip),
                tdc=TorchDistributedCommunicator())
        except Exception as e:  # noqa
            part.violation(f'gpt-exception:{type(e).__name__}',
                           f'tree={tree} skip={skip}: {e}', det)
            continue
        got = sorted((name, id(mod)) for mod, (name, _) in layers.items())
        exp = sorted((n, id(m)) for n, m in gpt_ref(model, skip))
        if got != exp:
            part.violation(
                'gpt-registered-set',
                f'GPT-NeoX register_modules tree={tree} skip={skip}: '
                f'registered {[n for n, _ in got]} expected '
                f'{[n for n, _ in exp]}', det)
        elif exp:
            part.seen('nontrivial', ('gpt', repr(tree), tuple(skip)))


def main(run: core.Run):
    thorough = run.tier == 'thorough'
    maxn = 5 if thorough else 4
    skips = list(SKIPS)
    if thorough:
        singles = [s for s in SKIPS if len(s) == 1]
        skips += [a + b for a, b in itertools.combinations(singles, 2)]
    items = []
    for n in range(1, maxn + 1):
        leaves = LEAVES if n <= 4 else ['Lin', 'SubLin', 'Conv2d', 'ReLU',
                                        'HalfFrozen', 'Shared']
        for sh in shapes(n):
            for tree in labelings(sh, leaves):
                items.append((tree, skips))
    run.notes['trees'] = len(items)
    run.notes['skip_lists'] = len(skips)
    core.pmap(run, tree_case, items)
    gitems = []
    for n in range(1, 4 + (1 if thorough else 0)):
        for sh in shapes(n):
            for tree in labelings(sh, GPT_LEAVES if n <= 3 else
                                  GPT_LEAVES[:4]):
                gitems.append((tree, GPT_SKIPS))
    run.notes['gpt_trees'] = len(gitems)
    core.pmap(run, gpt_case, gitems)
    run.c['states'] = run.c.get('evaluations', 0)
    run.c['transitions'] = run.c.get('evaluations', 0)
    run.c['distinct_nontrivial'] = len(run.distinct.get('nontrivial', ()))
    run.rule = (
        f'every module tree with <= {maxn} nodes over 16 leaf kinds (Linear '
        '+/- bias, Linear subclasses with and without a child, Conv2d, '
        'Conv1d, Embedding, BatchNorm2d, ReLU, frozen and half-frozen Linear,'
        ' one shared instance mounted repeatedly, distinct instances tied to one frozen weight, a subclass with a frozen extra parameter) and 4 container kinds x '
        f'{len(skips)} skip-pattern lists; registered (name, instance) set '
        'compared with an independent pre-order walk, also for a second registration after the same model instance was edited; hook counts on every '
        'module; non-trivial = at least one registered and one unregistered '
        'module')
    run.sample({'tree': items[len(items) // 2][0], 'skip': list(skips[3])})
    run.sample({'tree': items[-1][0], 'skip': list(skips[-1])})
    run.assumptions.append('GPT-NeoX register_modules is run with the '
                           'DeepSpeed stand-ins of gptenv.py; its class '
                           'names are matched as written and lower-cased')


def replay(run, data):
    d = data['detail']

    def tup(t):
        return t if isinstance(t, str) else (t[0], [tup(k) for k in t[1]])
    part = core.Part()
    if d.get('gpt'):
        gpt_case(part, (tup(d['tree']), [tuple(d['skip'])]))
    else:
        tree_case(part, (tup(d['tree']), [tuple(d['skip'])]))
    run.merge(part.dump())
