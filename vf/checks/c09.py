"""C09 - checkpoints round-trip; resuming is equivalent to never stopping."""
from __future__ import annotations

import itertools

import torch

from vf import core
from vf import distcheck as DC
from vf import kfacrun as K
from vf import oracles as O

F64 = torch.float64


def name_of(cfg):
    k = cfg['kfac']
    return (f"{cfg['model']}/w{cfg['world']}/gwf={k['grad_worker_fraction']}"
            f"/F={k['factor_update_steps']}/I={k['inv_update_steps']}/"
            f"{K.method_of(cfg)}/damp={k['damping']}/decay="
            f"{k['factor_decay']}/fdt={k.get('factor_dtype')}/col="
            f"{k.get('colocate_factors', True)}")


def hp_at(spec, step):
    f = K.mk_hp(spec)
    return f(step) if callable(f) else f


def valid(cfg, c, T, include, compute):
    k = cfg['kfac']
    F = hp_at(k['factor_update_steps'], c)
    Iv = hp_at(k['inv_update_steps'], c)
    if c == T:
        return True
    if include and compute:
        return True
    if include and not compute:
        return c % Iv == 0 and (c > 0 or c % F == 0)
    return c % F == 0 and c % Iv == 0


def run_real(cfg, sname):
    if cfg['world'] == 1:
        rec, _ = K.run_single(cfg)
        return [rec], []
    w, bad = DC.run_fixed(cfg, sname)
    return w.results, bad


def same_as_uninterrupted(cfg, ref_events, c):
    """May the continuation be compared with the uninterrupted run?  Only
    if the live second-order data was computed from the saved factors (and,
    where damping is baked in at refresh time, with a damping that a
    recomputation at step c reproduces) or is refreshed on the next step."""
    k = cfg['kfac']
    Iv = hp_at(k['inv_update_steps'], c)
    if c % Iv == 0:
        return True
    if c == 0:
        return True
    last = [e for e in ref_events[:c] if e['op'][0] == 'train'][-1]
    for nm, (A0, G0, lam0) in last['so'].items():
        if not torch.equal(A0, last['A'][nm]) or \
                not torch.equal(G0, last['G'][nm]):
            return False
        if K.method_of(cfg) != 'eigen' and lam0 != hp_at(k['damping'], c):
            return False
    return True


def case(part, item):
    cfg, T, snames = item
    name = name_of(cfg)
    base = dict(cfg, history=[['train']] * T)
    try:
        ref_u = K.reference(base)
    except Exception as e:  # noqa
        part.violation(f'reference:{type(e).__name__}', f'{name}: {e}',
                       {'cfg': cfg})
        return
    for sname in snames if cfg['world'] > 1 else snames[:1]:
        try:
            res_u, bad = run_real(base, sname)
        except Exception as e:  # noqa
            bad, res_u = [('exception', f'{type(e).__name__}: {e}')], None
        part.count('executions')
        if bad:
            part.violation(f'uninterrupted:{bad[0][0]}', f'{name} [{sname}]:'
                           f' {bad[0][1]}', {'cfg': base, 'schedule': sname})
            return
        for c, include, compute in itertools.product(
                range(T + 1), (True, False), (True, False)):
            if not valid(cfg, c, T, include, compute):
                continue
            hist = [['train']] * c + [['ckpt', include, compute]] + \
                [['train']] * (T - c)
            cc = dict(cfg, history=hist)
            det = {'cfg': cc, 'schedule': sname, 'T': T}
            tagk = (f"c={'0' if c == 0 else 'T' if c == T else 'mid'}:"
                    f"inc={include}:inv={compute}:{K.method_of(cfg)}:"
                    f"w{cfg['world']}")
            try:
                res, bad = run_real(cc, sname)
                ref = K.reference(cc)
            except Exception as e:  # noqa
                part.violation(
                    f'exception:{type(e).__name__}:{tagk}',
                    f'{name} save at step {c} (include_factors={include}, '
                    f'compute_inverses={compute}) [{sname}]: {e}', det)
                continue
            part.count('executions')
            part.count('evaluations')
            if bad:
                part.violation(f'{bad[0][0]}:{tagk}', f'{name} save at step '
                               f'{c} (include={include}, inverses={compute})'
                               f' [{sname}]: {bad[0][1]}', det)
                continue
            vs = []
            for r, rec in enumerate(res):
                ev = rec[c]
                sv, ld = ev['saved'], ev['loaded']
                for key in sv:
                    if key == 'layers':
                        continue
                    if ld.get(key) != sv[key] or type(ld.get(key)) is not \
                            type(sv[key]):
                        vs.append(('restore-scalar', f'rank{r}: {key} saved '
                                   f'{sv[key]!r} restored {ld.get(key)!r}'))
                if include:
                    for nm, st in sv['layers'].items():
                        for fk in 'AG':
                            a, b = st[fk], ld['layers'][nm][fk]
                            if a is not None and b is not None and \
                                    a.dtype != b.dtype:
                                vs.append(('restore-dtype', f'rank{r}: '
                                           f'factor {nm}.{fk} saved as '
                                           f'{a.dtype}, restored as '
                                           f'{b.dtype}'))
                            elif (a is None) != (b is None) or (
                                    a is not None and not torch.equal(a, b)):
                                vs.append(('restore-factor', f'rank{r}: '
                                           f'factor {nm}.{fk} not restored '
                                           'exactly'))
                if ev['steps_after'] != c:
                    vs.append(('restore-steps', f'rank{r}: steps '
                               f'{ev["steps_after"]} after loading a state '
                               f'saved at step {c}'))
                # continuation vs reference machine
                for e2, r2 in zip(rec[c + 1:], ref[c + 1:]):
                    vs += O.grads_vs_ref(cc, e2, r2, f'rank{r}: ',
                                         stats=part)
                # continuation vs the uninterrupted real run
                if include and same_as_uninterrupted(cfg, ref_u, c):
                    part.count('compared_with_uninterrupted')
                    for t in range(c, T):
                        eu, er = res_u[r][t], rec[t + 1]
                        for pn, g in eu['P'].items():
                            e = K.rel_err(er['P'][pn].to(F64), g.to(F64))
                            part.maxstat('resume_vs_uninterrupted', e)
                            if not e <= 2e-4:
                                vs.append((
                                    'resume-differs',
                                    f'rank{r}: step {t} after resuming from '
                                    f'step {c}: gradient of {pn} differs '
                                    f'from the uninterrupted run by '
                                    f'{e:.2e}'))
                                break
                if vs:
                    break
            if vs:
                kinds = '+'.join(sorted({k for k, _ in vs}))
                part.violation(f'{kinds}:{tagk}', f'{name} save at step {c} '
                               f'(include={include}, inverses={compute}) '
                               f'[{sname}]: {vs[0][1]}',
                               {**det, 'all': [t for _, t in vs[:5]]})
            part.seen('crash_points', (name, c, include, compute))
        # a state kept in memory (not copied) while training continues must
        # not change, and rolling back to it must restore it exactly
        import zlib
        kept_family = ((1, 2), (2, 1), (0, 2)) if cfg['world'] == 1 else \
            (((1, 2),) if zlib.crc32(name.encode()) % 2 == 0 else ())
        for c, k in kept_family:
            if c + k > T:
                continue
            hist = [['train']] * c + [['keep']] + [['train']] * k + \
                [['loadkept', True]] + [['train']] * (T - c - k)
            cc = dict(cfg, history=hist)
            det = {'cfg': cc, 'schedule': sname, 'T': T, 'kept': True}
            try:
                res, bad = run_real(cc, sname)
                ref = K.reference(cc)
            except Exception as e:  # noqa
                part.violation(f'exception:{type(e).__name__}:kept',
                               f'{name} keep at {c}, roll back after {k} '
                               f'more steps [{sname}]: {e}', det)
                continue
            part.count('executions')
            part.count('evaluations')
            if bad:
                part.violation(f'{bad[0][0]}:kept', f'{name}: {bad[0][1]}',
                               det)
                continue
            vs = []
            for r, rec in enumerate(res):
                sv = rec[c]['saved']
                ev = rec[c + 1 + k]
                for what, st in (('kept state after the run continued',
                                  ev['kept_now']),
                                 ('state after loading the kept state',
                                  ev['loaded'])):
                    if st['steps'] != sv['steps']:
                        vs.append(('kept-steps', f'rank{r}: {what}: steps '
                                   f'{st["steps"]} != {sv["steps"]}'))
                    for nm, lay in sv['layers'].items():
                        for fk in 'AG':
                            a, b = lay[fk], st['layers'][nm][fk]
                            if (a is None) != (b is None) or (
                                    a is not None and not torch.equal(a, b)):
                                vs.append(('kept-factor', f'rank{r}: {what}:'
                                           f' factor {nm}.{fk} is not the '
                                           'one that was saved'))
                for e2, r2 in zip(rec[c + 2 + k:], ref[c + 2 + k:]):
                    vs += O.grads_vs_ref(cc, e2, r2, f'rank{r}: ')
                if vs:
                    break
            if vs:
                kinds = '+'.join(sorted({k_ for k_, _ in vs}))
                part.violation(f'{kinds}:kept:{K.method_of(cfg)}',
                               f'{name} keep at step {c}, roll back after '
                               f'{k} more steps [{sname}]: {vs[0][1]}',
                               {**det, 'all': [t for _, t in vs[:5]]})
            part.seen('crash_points', (name, 'kept', c, k))
    part.seen('nontrivial', name)


def layer_count_case(part, item):
    import kfac
    from vf import kfacref as R

    m3 = R.build_model('mlp3')
    m2 = R.build_model('mlp2')
    p3 = kfac.preconditioner.KFACPreconditioner(m3)
    p2 = kfac.preconditioner.KFACPreconditioner(m2)
    part.count('evaluations')
    sd = p3.state_dict()
    try:
        p2.load_state_dict(sd)
        part.violation('layer-count-accepted', 'a state with 3 layers was '
                       'loaded into a preconditioner with 2 layers',
                       {'kind': 'layers'})
    except ValueError:
        pass
    except Exception as e:  # noqa
        part.violation(f'layer-count:{type(e).__name__}', str(e),
                       {'kind': 'layers'})


def configs(thorough, seed):
    out = []
    methods = [('eigen', True), ('eigen', False), ('inverse', False)]
    fis = [(1, 1), (1, 2), (2, 2), (2, 3), (3, 2)]
    hps = [dict(damping=0.05, factor_decay=0.5, kl_clip=1e-3, lr=0.1),
           dict(damping=['cyc', [0.05, 0.2, 0.1]],
                factor_decay=['cyc', [0.5, 0.9]], kl_clip=1e-3,
                lr=['cyc', [0.1, 0.2]])]
    i = 0
    for world in (1, 2, 4):
        for k in [d for d in range(1, world + 1) if world % d == 0]:
            for (f, inv), (m, pre), hp, model in itertools.product(
                    fis, methods, hps, ('mlp2', 'mlp3', 'nested')):
                i += 1
                if model != 'mlp2' and (world == 1 or (i + seed) % 4) \
                        and not (model == 'nested' and world == 1
                                 and (i + seed) % 4 == 0):
                    continue
                if not thorough and world == 4 and (i + seed) % 2:
                    continue
                kk = dict(compute_method=m,
                          compute_eigenvalue_outer_product=pre,
                          factor_update_steps=f, inv_update_steps=inv,
                          grad_worker_fraction=k / world, **hp)
                # rotate factor dtype and (where the constructor allows it)
                # non-co-located factors through the box
                fdt = (None, 'f64', None, 'bf16')[i % 4]
                if fdt:
                    kk['factor_dtype'] = fdt
                if not pre and k > 1 and i % 3 == 0:
                    kk['colocate_factors'] = False
                if i % 5 == 0:
                    # "no clipping" is a scalar that must be restored too
                    # (the fresh object is built with a non-None value)
                    kk['kl_clip'] = None
                out.append({'model': model, 'dtype': 'f32', 'batch': 2,
                            'world': world, 'seed': seed, 'kfac': kk,
                            'ckpt_perturb': True})
    return out


def any_case(part, item):
    if item[0] == 'layers':
        layer_count_case(part, item)
    else:
        case(part, item)


def main(run: core.Run):
    thorough = run.tier == 'thorough'
    T = 6 if thorough else 4
    cfgs = configs(thorough, run.seed)
    snames = ('S0-lowest-eager', 'S3-lowest-lazy-poison')
    items = [(c, T, snames) for c in cfgs] + [('layers',)]
    core.pmap(run, any_case, items,
              weight=lambda it: 1 if it[0] == 'layers' else
              it[0]['world'] ** 2 * (2 if it[0]['world'] > 1 else 1))
    run.c['states'] = run.c.get('evaluations', 0)
    run.c['transitions'] = run.c.get('executions', 0)
    run.c['distinct_nontrivial'] = len(run.distinct.get('crash_points', ()))
    run.notes['configurations'] = len(cfgs)
    run.notes['T'] = T
    run.rule = (
        f'for every configuration (world 1/2/4 x every gradient-worker count '
        'x interval pairs incl. non-multiples x 3 methods x constant or '
        f'callable hyper-parameters) an uninterrupted run of T={T} steps and, '
        'for EVERY step boundary c in 0..T x include_factors x '
        'compute_inverses (minus what the documentation excludes), a run '
        'that saves at c, loads into a fresh model + fresh preconditioner on '
        'all ranks and continues to T; restored steps / scalars / factors '
        'compared bit-exactly on every rank, continuation compared with '
        'RefKFAC and - when the live second-order data derived from the '
        'saved factors or is refreshed next - with the uninterrupted real '
        'run; additionally a state kept in memory (uncopied) while training '
        'continues and then rolled back to must be unchanged; simdist '
        'matching/stall oracle on every execution; distinct '
        'non-trivial = (configuration, crash point, flags) triples')
    run.cap('worlds > 1 run under two fixed schedules (lowest-first eager, '
            'lazy delivery + poisoning); interleavings are explored '
            'exhaustively in C02/C03')
    run.sample({'config': name_of(cfgs[0]), 'crash_points': list(range(T + 1)),
                'flags': [[True, True], [True, False], [False, True]]})
    run.assumptions += ['values from a fixed lattice',
                        'with step-dependent damping the comparison with '
                        'the uninterrupted run is only made where a '
                        'recomputation at the checkpoint step reproduces '
                        'the damping baked into the live data']


def replay(run, data):
    d = data['detail']
    part = core.Part()
    if d.get('kind') == 'layers':
        layer_count_case(part, ('layers',))
    else:
        cfg = dict(d['cfg'])
        cfg.pop('history', None)
        case(part, (cfg, d.get('T', 4), (d['schedule'],)))
    run.merge(part.dump())
