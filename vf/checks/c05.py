"""C05 - update intervals and hyper-parameter schedules over any history.

Explicit-state BFS over operation histories on the real KFACPreconditioner in
lock-step with RefKFAC; states are deep-copied (no replay) and merged by a
digest of the K-FAC state + model parameters."""
from __future__ import annotations

import copy
import itertools

from vf import core
from vf import kfacrun as K
from vf import oracles as O
from vf.digest import digest as _dg

SCHED = {'factor_update_steps': ['cyc', [2, 0.5, 1, 2, 1]],
         'damping': ['cyc', [2.0, 0.5, 1.5]],
         'inv_update_steps': ['cyc', [2, 0.5, 1]],
         'factor_decay': ['cyc', [0.5, 1.25, 1.0]]}


STATS = [None]


def alphabet(cfg):
    ops = [['train'], ['eval'], ['reset'], ['ckpt', True, True],
           ['train_reset'], ['keep'], ['rollback']]
    k = cfg['kfac']
    if k.get('accumulation_steps', 1) > 1:
        # reset_batch() in the middle of an accumulation window
        ops.append(['train_reset', 1])
    if not any(isinstance(k.get(n), list) for n in K.HP_NAMES):
        ops.append(['sched', SCHED])
    return ops


def cfg_name(cfg):
    k = cfg['kfac']
    return (f"{cfg['model']}/F={k['factor_update_steps']}/"
            f"I={k['inv_update_steps']}/acc={k.get('accumulation_steps', 1)}"
            f"/hook={k.get('update_factors_in_hook', True)}/"
            f"{K.method_of(cfg)}/damp={k['damping']}/decay="
            f"{k['factor_decay']}/kl={k['kl_clip']}/lr={k['lr']}")


def check_event(cfg, ev, rv, prev):
    v = []
    kind = ev['op'][0]
    if kind in ('train', 'train_reset'):
        v += O.grads_vs_ref(cfg, ev, rv, stats=STATS[0])
        if rv['factor_step'] and rv.get('moments_used', True):
            v += O.factors_vs_ref(cfg, ev, rv, stats=STATS[0])
        elif prev is not None and ev['dg']['fac'] != prev['dg']['fac']:
            v.append(('factors-changed', 'factors changed on a step that is '
                      'not a factor-update step'))
        if not rv['inv_step'] and prev is not None and \
                ev['dg']['so'] != prev['dg']['so']:
            v.append(('second-order-changed', 'second-order data changed on '
                      'a step that is not an inverse-update step'))
        if ev['steps_after'] != ev['steps_before'] + 1:
            v.append(('steps', f"steps {ev['steps_before']} -> "
                      f"{ev['steps_after']}"))
    else:
        if ev['steps_after'] != rv['steps_after']:
            v.append(('steps', f"after {kind}: steps={ev['steps_after']} "
                      f"expected {rv['steps_after']}"))
        if kind == 'eval' and prev is not None and \
                ev['dg']['all'] != prev['dg']['all']:
            v.append((f'{kind}-changed-state', f'{kind} changed K-FAC state'))
    for n in K.HP_NAMES:
        a, b = ev['hp'][n], rv['hp'][n]
        if isinstance(a, str) or isinstance(b, str):
            continue
        if a != b:
            v.append(('hyperparameter', f'after {kind}: {n}={a!r} expected '
                      f'{b!r} at step {ev["steps_after"]}'))
    return v


def valid_next(cfg, rr, op):
    """Histories the documentation excludes are not generated."""
    ref = rr.ref
    if op[0] == 'train_reset' and any(ref.A[n] is None
                                      for n in ref.layers):
        return False
    if op[0] == 'keep' and (any(ref.A[n] is None for n in ref.layers)
                            or getattr(rr, 'kept', None) is not None):
        return False  # one kept state per history, taken after a step
    if op[0] == 'rollback' and (getattr(rr, 'kept', None) is None
                                or rr.kept['steps'] == ref.steps):
        return False
    if op[0] in ('train', 'train_reset'):
        # second-order data must exist or be refreshed now
        if any(ref.so[n] is None for n in ref.layers) and not (
                ref.is_inv_step() and (ref.is_factor_step() or all(
                    ref.A[n] is not None for n in ref.layers))):
            return False
        if any(ref.A[n] is None for n in ref.layers) and \
                not ref.is_factor_step():
            return False
        try:
            if K.R.hp(ref.fus, ref.steps) <= 0 or \
                    K.R.hp(ref.ius, ref.steps) <= 0:
                return False
        except Exception:  # noqa
            return False
    return True


def bfs_case(part, item):
    cfg, depth = item
    STATS[0] = part
    cfg = dict(cfg, digests=True, history=[])
    name = cfg_name(cfg)
    run0 = K.RealRun(cfg, 0, K.NullWorld())
    rr0 = K.RefRun(cfg)
    ops = alphabet(cfg)
    seen = {_dg(run0.pre, run0.model)}
    frontier = [(run0, rr0, [])]
    part.count('states')
    nontrivial = False
    while frontier:
        nxt = []
        for run, rr, hist in frontier:
            for op in ops:
                if not valid_next(cfg, rr, op):
                    continue
                r2, q2 = copy.deepcopy((run, rr))
                h2 = hist + [op]
                part.count('transitions')
                part.count('evaluations')
                try:
                    r2.do(op, len(hist))
                    rv = q2.do(op, len(hist))
                except Exception as e:  # noqa
                    part.violation(
                        f'exception:{type(e).__name__}:{op[0]}',
                        f'{name} history={[o[0] for o in h2]}: {e}',
                        {'cfg': cfg, 'history': h2})
                    continue
                ev = r2.rec[-1]
                prev = r2.rec[-2] if len(r2.rec) > 1 else None
                vs = check_event(cfg, ev, rv, prev)
                if vs:
                    kinds = '+'.join(sorted({k for k, _ in vs}))
                    part.violation(
                        f'{kinds}:{K.method_of(cfg)}:{op[0]}',
                        f'{name} history={[o[0] for o in h2]}: {vs[0][1]}',
                        {'cfg': cfg, 'history': h2,
                         'all': [t for _, t in vs[:6]]})
                    continue
                if op[0] in ('train', 'train_reset') and not rv['inv_step']:
                    nontrivial = True
                k = _dg(r2.pre, r2.model, getattr(r2, 'kept', None))
                if k in seen:
                    continue
                seen.add(k)
                part.count('states')
                # drop bulky per-event tensors we no longer need
                for e in r2.rec[:-1]:
                    for kk in ('D', 'P', 'params_before', 'params_after',
                               'factors'):
                        e.pop(kk, None)
                if len(h2) < depth:
                    nxt.append((r2, q2, h2))
        frontier = nxt
    if nontrivial:
        part.seen('nontrivial', name)
    part.sample({'config': name, 'states': len(seen)}, limit=2)


def configs(thorough, seed):
    out = []
    fi = [(1, 1), (1, 2), (2, 2), (2, 3), (3, 2), (1, 3)]
    if thorough:
        fi = list(itertools.product((1, 2, 3, 4), repeat=2))
    fi += [(['cyc', [1, 2]], 2), (2, ['cyc', [3, 1, 2]])]
    hp_const = dict(damping=0.01, factor_decay=0.5, kl_clip=0.001, lr=0.1)
    hp_call = dict(damping=['cyc', [0.01, 0.03, 0.1]],
                   factor_decay=['cyc', [0.5, 0.9, 0.7]],
                   kl_clip=['cyc', [0.001, 0.0001, 0.01]],
                   lr=['cyc', [0.1, 0.3, 0.05]])
    methods = [('eigen', True), ('eigen', False), ('inverse', False)]
    i = 0
    for (f, inv), acc, hook, hps, (m, pre) in itertools.product(
            fi, (1, 2), (True, False), (hp_const, hp_call), methods):
        i += 1
        if not thorough:
            # quick: a rotating third of the box (all of it over 3 seeds),
            # always keeping the non-multiple interval pairs
            if (i + seed) % 3 and (f, inv) not in ((2, 3), (3, 2)):
                continue
        out.append({'model': 'mlp2', 'dtype': 'f32', 'batch': 2, 'world': 1,
                    'seed': seed, 'kfac': dict(
                        factor_update_steps=f, inv_update_steps=inv,
                        accumulation_steps=acc, update_factors_in_hook=hook,
                        compute_method=m,
                        compute_eigenvalue_outer_product=pre, **hps)})
    return out


def main(run: core.Run):
    thorough = run.tier == 'thorough'
    depth = 7 if thorough else 5
    cfgs = configs(thorough, run.seed)
    core.pmap(run, bfs_case, [(c, depth) for c in cfgs], chunk=1)
    run.c['distinct_nontrivial'] = len(run.distinct.get('nontrivial', ()))
    run.notes['configurations'] = len(cfgs)
    run.notes['depth'] = depth
    run.rule = (
        f'BFS to depth {depth} over {{train iteration, eval pass, '
        'reset_batch at a boundary and between backward and step, keeping a '
        'state and rolling the same object back to it, checkpoint round trip into a fresh preconditioner, '
        'scheduler step}} on the real KFACPreconditioner (2-layer MLP) in '
        'lock-step with RefKFAC, for interval pairs incl. non-multiples and '
        'callables x accumulation {1,2} x hook/no-hook x constant or strictly '
        'step-dependent callable hyper-parameters x {eigen+prediv, eigen, '
        'inverse}; states merged by digest of K-FAC state + parameters; '
        'non-trivial = configurations in which some step preconditions with '
        'second-order data from an earlier step')
    run.assumptions += [
        'tensor values from a fixed lattice; one small model',
        'histories the documentation excludes (a step without second-order '
        'data that is not a refresh step) are not generated',
    ]
    if not thorough:
        run.cap('quick explores one third of the configuration box per seed')


def replay(run, data):
    d = data['detail']
    cfg = dict(d['cfg'], digests=True, history=[])
    part = core.Part()
    runr = K.RealRun(cfg, 0, K.NullWorld())
    rr = K.RefRun(cfg)
    prev = None
    for i, op in enumerate(d['history']):
        runr.do(op, i)
        rv = rr.do(op, i)
        ev = runr.rec[-1]
        vs = check_event(cfg, ev, rv, prev)
        prev = ev
        part.count('evaluations')
        if vs:
            part.violation(f'replay:{vs[0][0]}', vs[0][1], d)
    run.merge(part.dump())
