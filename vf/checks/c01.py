"""C01 - preconditioned gradient solves the damped Kronecker system."""
from __future__ import annotations

import itertools

from vf import core, simdist
from vf import kfacrun as K
from vf import oracles as O


def name_of(cfg):
    k = cfg['kfac']
    return (f"{cfg['model']}/{cfg['dtype']}/{K.method_of(cfg)}/damp="
            f"{k['damping']}/decay={k['factor_decay']}/kl={k['kl_clip']}/"
            f"fdt={k.get('factor_dtype')}/idt={k.get('inv_dtype')}/"
            f"batch={cfg['batch']}/steps={len(cfg['history'])}/"
            f"mult={cfg.get('loss_mult', 1.0)}")


def case(part, cfg):
    name = name_of(cfg)
    n = cfg.get('world', 1)
    try:
        ref = K.reference(cfg)
        if n == 1:
            rec, _ = K.run_single(cfg)
            recs = [(rec, '')]
        else:
            # every rank of a simulated world must satisfy the system with
            # its own gradients and the (all-reduced) factors it holds
            name += f"/w{n}/gwf={cfg['kfac'].get('grad_worker_fraction')}"
            recs = []
            for sname in ('S0-lowest-eager', 'S3-lowest-lazy-poison'):
                w = simdist.run_world(n, K.make_program(cfg), sname)
                part.count('executions')
                bad = list(w.violations) + [
                    ('exception', f'rank{r}: {e[0]}')
                    for r, e in enumerate(w.errors)
                    if e and e[0] != 'SimViolation']
                if bad:
                    part.violation(f'sim:{bad[0][0]}', f'{name} [{sname}]: '
                                   f'{bad[0][1]}', {'cfg': cfg})
                    return
                recs += [(w.results[r], f'[{sname}] rank{r}: ')
                         for r in range(n)]
    except Exception as e:  # noqa
        part.violation(f'exception:{type(e).__name__}:{K.method_of(cfg)}',
                       f'{name}: {e}', {'cfg': cfg})
        return
    for rec, who in recs:
        if not _check_rec(part, cfg, name, rec, ref, who):
            return
    part.seen('nontrivial', name)


def _check_rec(part, cfg, name, rec, ref, who):
    t = -1
    for ev, rv in zip(rec, ref):
        if ev['op'][0] != 'train':
            continue
        t += 1
        part.count('evaluations')
        import torch

        if min(torch.linalg.eigvalsh(f[k].double()).min().item()
               for f in ev['factors'].values() for k in 'AG') < -1e-3:
            part.count('steps_with_indefinite_factor')
        vs = O.system_residual(cfg, ev, rv, who=who, stats=part)
        if ev['steps_after'] != rv['steps_after']:
            vs.append(('steps', f'steps={ev["steps_after"]} after {t + 1} '
                       f'training steps, expected {rv["steps_after"]}'))
        if vs:
            kinds = '+'.join(sorted({k for k, _ in vs}))
            part.violation(
                f"{kinds}:{K.method_of(cfg)}:{cfg['model']}:{cfg['dtype']}",
                f'{name} step {t}: {vs[0][1]}',
                {'cfg': cfg, 'step': t, 'all': [x for _, x in vs[:6]]})
            return False
        if rv['nu'] < 1:
            part.seen('clip_active', name)
    return True


def configs(thorough, seed):
    out = []
    models = ['lin1', 'sq', 'mlp3', 'conv', 'convsq', 'seq3d', 'nbfirst']
    if thorough:
        models += ['nested', 'mixed', 'wide', 'mlp2']
    methods = [('eigen', True), ('eigen', False), ('inverse', False)]
    dampings = [1e-2, 1e-1, 1.0, 10.0]
    decays = [0.5, 0.95, 1.0]
    dts = [('f32', None, 'f32'), ('f64', None, 'f32'), ('f64', 'f64', 'f64')]
    if thorough:
        dts += [('f32', 'f64', 'f64'), ('bf16', None, 'f32'),
                ('f64', 'f32', 'f32')]
    steps = 6 if thorough else 3
    batches = (1, 2, 3) if thorough else (2,)
    for model, (m, pre), lam, dec, (dt, fdt, idt), kl, b in itertools.product(
            models, methods, dampings, decays, dts, (1e-3, 1e30), batches):
        k = dict(damping=lam, factor_decay=dec, kl_clip=kl, lr=0.1,
                 compute_method=m, compute_eigenvalue_outer_product=pre,
                 inv_dtype=idt)
        if fdt:
            k['factor_dtype'] = fdt
        out.append({'model': model, 'dtype': dt, 'batch': b, 'world': 1,
                    'seed': seed, 'kfac': k, 'history': [['train']] * steps})
    # rank-deficient batches, low-precision factors, long decay: factors
    # with zero / slightly negative eigenvalues (PSD projection matters)
    for model, (m, pre), fdt, lam, mult in itertools.product(
            ['mlp3', 'sq', 'conv', 'wide'], methods, [None, 'bf16'],
            [1e-2, 1e-3], [1.0, 4.0, 10.0, 30.0]):
        if m == 'inverse' and fdt == 'bf16':
            # A + damping*I is formed in the factor's storage dtype: with
            # bfloat16 a damping of 1e-2 is below half an ulp of a diagonal
            # entry >= 2, so the damped matrix of a rank-deficient batch can
            # be exactly singular (linalg.inv raises, seen with seed 3).
            # Outside the regime in which the system is defined (see 9.3).
            continue
        k = dict(damping=lam, factor_decay=0.5, kl_clip=1e-3, lr=0.1,
                 compute_method=m, compute_eigenvalue_outer_product=pre,
                 inv_dtype='f32')
        if fdt:
            k['factor_dtype'] = fdt
        out.append({'model': model, 'dtype': 'f32', 'batch': 1, 'world': 1,
                    'seed': seed, 'kfac': k, 'loss_mult': mult,
                    'history': [['train']] * (16 if thorough else 12)})
    # explicitly indefinite factors (loaded state): the eigen method must
    # take them positive semi-definite, the inverse method solves as is
    for model, (m, pre), neg, lam in itertools.product(
            ['sq', 'mlp3', 'conv'], methods, [0.05, 0.2], [0.3, 1.0]):
        k = dict(damping=lam, factor_decay=0.95, kl_clip=1e-3, lr=0.1,
                 compute_method=m, compute_eigenvalue_outer_product=pre)
        out.append({'model': model, 'dtype': 'f32', 'batch': 2, 'world': 1,
                    'seed': seed, 'kfac': k, 'loss_mult': 4.0,
                    'history': [['train'], ['perturb', neg], ['train'],
                                ['train']]})
    # damping that changes between steps (evaluated at the current step)
    for model, (m, pre) in itertools.product(['sq', 'conv'], methods):
        k = dict(damping=['cyc', [0.01, 0.3, 0.05]], factor_decay=0.5,
                 kl_clip=1e-3, lr=0.1, compute_method=m,
                 compute_eigenvalue_outer_product=pre)
        out.append({'model': model, 'dtype': 'f32', 'batch': 2, 'world': 1,
                    'seed': seed, 'kfac': k, 'history': [['train']] * 4})
    # clip and learning rate given as functions of the step
    for model, (m, pre) in itertools.product(['nbfirst', 'conv'], methods):
        k = dict(damping=0.05, factor_decay=0.5,
                 kl_clip=['cyc', [1e-3, 1e-5, 1e-1]],
                 lr=['cyc', [0.1, 0.5, 0.02]], compute_method=m,
                 compute_eigenvalue_outer_product=pre)
        out.append({'model': model, 'dtype': 'f32', 'batch': 2, 'world': 1,
                    'seed': seed, 'kfac': k, 'loss_mult': 4.0,
                    'history': [['train']] * 4})
    # a step that preconditions with second-order data recomputed by
    # load_state_dict (fresh object built with OTHER constants): the system
    # must hold with the restored damping and factors
    for model, (m, pre), lam in itertools.product(
            ['mlp3', 'conv'], methods, [0.02, 0.3]):
        k = dict(damping=lam, factor_decay=0.5, kl_clip=1e-3, lr=0.1,
                 compute_method=m, compute_eigenvalue_outer_product=pre,
                 factor_update_steps=3, inv_update_steps=3)
        out.append({'model': model, 'dtype': 'f32', 'batch': 2, 'world': 1,
                    'seed': seed, 'kfac': k, 'ckpt_perturb': True,
                    'history': [['train'], ['train'], ['ckpt', True, True],
                                ['train'], ['train'], ['train']]})
    # roll-back into the SAME, already used object: the next step (not an
    # update step) must use second-order data of the restored factors
    for model, (m, pre) in itertools.product(['mlp3', 'conv'], methods):
        k = dict(damping=0.05, factor_decay=0.5, kl_clip=1e-3, lr=0.1,
                 compute_method=m, compute_eigenvalue_outer_product=pre,
                 factor_update_steps=3, inv_update_steps=3)
        out.append({'model': model, 'dtype': 'f32', 'batch': 2, 'world': 1,
                    'seed': seed, 'kfac': k,
                    'history': [['train'], ['keep'], ['train'], ['train'],
                                ['train'], ['rollback'], ['train'],
                                ['train']]})
    # simulated worlds: ranks that RECEIVE second-order data or gradients
    # must satisfy the system as well, on every step
    for world, strat in ((2, 'COMM_OPT'), (2, 'MEM_OPT'), (4, 'COMM_OPT'),
                         (4, 'HYBRID_OPT'), (4, 'MEM_OPT')):
        for model, (m, pre), kl in itertools.product(
                ['mlp3', 'conv'], methods, (1e-3, 1e30)):
            if world == 4 and not thorough and model == 'conv' and kl > 1:
                continue
            k = dict(damping=0.05, factor_decay=0.5, kl_clip=kl, lr=0.1,
                     compute_method=m, compute_eigenvalue_outer_product=pre,
                     grad_worker_fraction=strat,
                     symmetry_aware=(len(out) % 2 == 0))
            out.append({'model': model, 'dtype': 'f32', 'batch': 2,
                        'world': world, 'seed': seed, 'kfac': k,
                        'history': [['train']] * 3})
    return out


def main(run: core.Run):
    thorough = run.tier == 'thorough'
    cfgs = configs(thorough, run.seed)
    core.pmap(run, case, cfgs,
              weight=lambda c: len(c['history']) * c['world'] ** 2 * 2)
    run.c['states'] = run.c.get('evaluations', 0)
    run.c['transitions'] = run.c.get('evaluations', 0)
    run.c['distinct_nontrivial'] = len(run.distinct.get('nontrivial', ()))
    run.notes['configurations'] = len(cfgs)
    run.notes['configs_with_active_clipping'] = len(
        run.distinct.get('clip_active', ()))
    run.rule = (
        'configuration box {6 models: linear +/- bias, square layers, 2-D '
        'convolutions incl. rectangular kernels/stride/padding, N-d inputs} '
        'x {inverse, eigen, eigen+prediv} x damping {1e-2..10} x decay '
        '{0.5,0.95,1} x dtype triples x clipping active/inactive, every step '
        'of a multi-step run with both intervals 1; plus rank-deficient / '
        'bf16-factor long runs and step-dependent damping; a step right '
        'after a checkpoint was loaded into a fresh object built with other '
        'constants (intervals 3/3); plus simulated '
        'worlds 2 and 4 under every strategy (two fixed schedules, every '
        'rank checked); after each step '
        'the gradient divided by nu must satisfy the defining system built '
        'from the state_dict factors in float64 (relative residual <= '
        '30*eps*(1+kappa)); evaluations = steps checked; non-trivial = '
        'configurations')
    run.sample(cfgs[len(cfgs) // 2])
    run.sample(cfgs[-1])
    run.assumptions += ['tensor values from a fixed rational lattice',
                        'tolerance scales with the conditioning computed '
                        'from the stored factors']


def replay(run, data):
    part = core.Part()
    case(part, data['detail']['cfg'])
    run.merge(part.dump())
