"""C10 - a step touches nothing but the gradients of registered layers."""
from __future__ import annotations

import copy
import itertools

import torch
from torch import nn

from vf import core
from vf import kfacref as R
from vf.digest import digest as _dg

F64 = torch.float64


class Scale(nn.Module):
    """Unsupported custom module with parameters."""

    def __init__(self):
        super().__init__()
        self.gain = nn.Parameter(torch.ones(3))

    def forward(self, x):
        return x * self.gain


class LoRALinear(nn.Linear):
    """A supported type that owns child modules: not a leaf, so it is not
    registered itself (its two children are)."""

    def __init__(self):
        super().__init__(3, 2)
        self.down = nn.Linear(3, 1, bias=False)
        self.up = nn.Linear(1, 2, bias=False)

    def forward(self, x):
        return super().forward(x) + self.up(self.down(x))


class Wrap(nn.Module):
    def __init__(self, inner):
        super().__init__()
        self.skipme = inner

    def forward(self, x):
        return self.skipme(x)


class Branches(nn.Module):
    """Each leaf gets its own input; outputs are reduced and summed."""

    def __init__(self, leaves):
        super().__init__()
        self.leaves = nn.ModuleList(leaves)

    def forward(self, xs):
        return sum((leaf(x) ** 2).mean() + leaf(x).sum() * 0.1
                   for leaf, x in zip(self.leaves, xs))


LEAVES = ['Lin', 'LinNB', 'Conv', 'ConvNB', 'BN2d', 'BN1d', 'LN', 'Emb',
          'Scale', 'Frozen', 'HalfFrozen', 'Skipped', 'Chain', 'LoRA']


def mk_leaf(kind):
    if kind == 'Lin':
        return nn.Linear(3, 2), (2, 3)
    if kind == 'LinNB':
        return nn.Linear(3, 3, bias=False), (2, 2, 3)
    if kind == 'Conv':
        return nn.Conv2d(1, 2, 2, padding=1), (2, 1, 3, 2)
    if kind == 'ConvNB':
        return nn.Conv2d(2, 2, (1, 2), stride=(1, 2), bias=False), \
            (1, 2, 2, 4)
    if kind == 'BN2d':
        return nn.BatchNorm2d(2), (3, 2, 2, 2)
    if kind == 'BN1d':
        return nn.BatchNorm1d(3), (4, 3)
    if kind == 'LN':
        return nn.LayerNorm(3), (2, 3)
    if kind == 'Emb':
        return nn.Embedding(5, 2), 'int'
    if kind == 'Scale':
        return Scale(), (2, 3)
    if kind == 'Frozen':
        m = nn.Linear(3, 2)
        for p in m.parameters():
            p.requires_grad_(False)
        return m, (2, 3)
    if kind == 'HalfFrozen':
        m = nn.Linear(3, 2)
        m.bias.requires_grad_(False)
        return m, (2, 3)
    if kind == 'LoRA':
        return LoRALinear(), (2, 3)
    if kind == 'Skipped':
        return nn.Sequential(nn.Linear(3, 2)), (2, 3)   # name '...skipme'
    if kind == 'Chain':
        return nn.Sequential(nn.Linear(3, 3), nn.Tanh(), nn.BatchNorm1d(3),
                             nn.Linear(3, 2)), (3, 3)
    raise KeyError(kind)


def build(kinds, dtype, seed):
    leaves, shapes = [], []
    for kind in kinds:
        m, shp = mk_leaf(kind)
        if kind == 'Skipped':
            m = Wrap(m[0])
        leaves.append(m)
        shapes.append(shp)
    model = Branches(leaves).to(dtype)
    with torch.no_grad():
        for i, p in enumerate(model.parameters()):
            p.copy_((R.lattice(tuple(p.shape), 10 + i, seed=seed) / 2
                     + (1.0 if p.dim() == 1 else 0.0)).to(dtype))
    return model, shapes


def inputs(shapes, dtype, step, seed):
    xs = []
    for i, shp in enumerate(shapes):
        if shp == 'int':
            xs.append(torch.tensor([[0, 2, 4], [1, 1, 3]]))
        else:
            xs.append(R.lattice(shp, 1, i, step, seed=seed).to(dtype))
    return xs


def snapshot(model):
    return {
        'state': {k: v.detach().clone() for k, v in
                  model.state_dict().items()},
        'grad': {n: (None if p.grad is None else p.grad.detach().clone())
                 for n, p in model.named_parameters()},
        'meta': {n: (None if p.grad is None else
                     (tuple(p.grad.shape), p.grad.dtype, p.grad.device,
                      p.grad.is_contiguous()))
                 for n, p in model.named_parameters()},
    }


def kfac_state(pre):
    return _dg([{k: v for k, v in vars(layer).items()
                 if k not in ('module', 'tdc')}
                for _, (_, layer) in pre._layers.items()],
               pre._steps, dict(pre._mini_steps))


def eval_between(model, twin, pre, shapes, dtype, step, seed):
    """An eval-mode forward/backward pass in the middle of an iteration;
    parameter gradients are restored afterwards."""
    saved = [(p, None if p.grad is None else p.grad.clone())
             for m in (model, twin) for p in m.parameters()]
    k0 = kfac_state(pre)
    for m in (model, twin):
        m.eval()
    xs = inputs(shapes, dtype, step, seed)
    model(xs).backward()
    twin(xs).backward()
    for m in (model, twin):
        m.train()
    for p, g in saved:
        p.grad = g
    if kfac_state(pre) != k0:
        return 'an eval-mode forward/backward pass inside a training ' \
               'iteration changed K-FAC state'
    return None


def mixed_mode_check(model, pre, shapes, dtype, seed):
    """Part of the model in eval mode (every other registered module,
    starting with the first), the rest training: a forward/backward pass
    must leave the K-FAC state of the eval-mode layers unchanged.  Runs on
    a second, freshly built model + preconditioner."""
    m2, p2 = model, pre
    regs = list(p2._layers.items())
    if len(regs) < 2:
        return None
    m2.train()
    frozen = []
    for i, (mod, (name, layer)) in enumerate(regs):
        if i % 2 == 0 and i != len(regs) - 1:
            mod.eval()
            frozen.append((name, layer))

    def dg():
        return {name: _dg({k: v for k, v in vars(layer).items()
                           if k not in ('module', 'tdc')},
                          p2._mini_steps.get(name, 0))
                for name, layer in frozen}

    before = dg()
    out = m2(inputs(shapes, dtype, 900, seed))
    if out.requires_grad:
        out.backward()
    after = dg()
    for name in before:
        if before[name] != after[name]:
            return (f'layer {name} is in eval mode (other layers train): a '
                    'forward/backward pass changed its K-FAC state')
    return None


def case(part, item):
    kinds, dname, (method, prediv), idt, fdt, modes, seed = item[:7]
    kl = item[7] if len(item) > 7 else 1e-3
    hook, acc = item[8] if len(item) > 8 else (True, 1)
    gscale = item[9] if len(item) > 9 else None
    import kfac

    dtype = R.DT[dname]
    name = (f"{'+'.join(kinds)}/{dname}/{method}/{prediv}/idt={idt}/fdt="
            f"{fdt}/modes={modes}/kl={kl}")
    name += f'/hook={hook}/acc={acc}/gradscale={gscale}'
    det = {'item': [list(kinds), dname, [method, prediv], idt, fdt, modes,
                    seed, kl, [hook, acc], gscale]}

    def bad(kind, text):
        part.violation(f'{kind}:{dname}', f'{name}: {text}', det)

    try:
        model, shapes = build(kinds, dtype, seed)
        twin = copy.deepcopy(model)
        kw = dict(damping=0.05, factor_decay=0.5, kl_clip=kl, lr=0.1,
                  compute_method=method,
                  compute_eigenvalue_outer_product=prediv,
                  inv_dtype=R.DT[idt], skip_layers=['skipme$'],
                  update_factors_in_hook=hook, accumulation_steps=acc)
        if fdt:
            kw['factor_dtype'] = R.DT[fdt]
        if gscale is not None:
            kw['grad_scaler'] = lambda: gscale
        pre = kfac.preconditioner.KFACPreconditioner(model, **kw)
        # registered parameters decided independently of the preconditioner
        # (from the user's skip patterns), so that a module registered
        # against the user's wish counts as foreign
        from vf.checks.c16 import ref_registration
        reg = set()
        for lname, mod in ref_registration(model, ['skipme$']):
            for pn, _p in mod.named_parameters():
                reg.add(f'{lname}.{pn}')
        trained = False
        model_m, _ = build(kinds, dtype, seed)
        err = mixed_mode_check(
            model_m, kfac.preconditioner.KFACPreconditioner(model_m, **kw),
            shapes, dtype, seed)
        if err:
            bad('eval-changed-state', err)
            return
        for step, mode in enumerate(modes):
            part.count('evaluations')
            xs = inputs(shapes, dtype, step, seed)
            model.train(mode == 't')
            twin.train(mode == 't')
            before_k = kfac_state(pre)
            model.zero_grad()
            twin.zero_grad()
            nmb = acc if mode == 't' else 1
            for mb in range(nmb):
                if mb:
                    # an eval-mode pass between two micro-batches must not
                    # touch K-FAC state
                    err = eval_between(model, twin, pre, shapes, dtype,
                                       100 + step, seed)
                    if err:
                        bad('eval-changed-state', f'step {step}: {err}')
                        return
                xs = inputs(shapes, dtype, step * 7 + mb, seed)
                out = model(xs) / nmb
                out_t = twin(xs) / nmb
                if not out.requires_grad:
                    part.count('programs_without_trainable_parameters')
                    return
                out.backward()
                out_t.backward()
            if mode == 't' and not hook:
                # ... nor between backward and step()
                err = eval_between(model, twin, pre, shapes, dtype,
                                   200 + step, seed)
                if err:
                    bad('eval-changed-state', f'step {step}: {err}')
                    return
            # hooks must not change outputs or autograd gradients
            if not torch.equal(out, out_t):
                bad('output', f'step {step}: output differs from the twin '
                    'without K-FAC')
                return
            for (n, p), (_, q) in zip(model.named_parameters(),
                                      twin.named_parameters()):
                if (p.grad is None) != (q.grad is None) or (
                        p.grad is not None and not torch.equal(p.grad,
                                                               q.grad)):
                    bad('autograd', f'step {step}: gradient of {n} differs '
                        'from the twin without K-FAC')
                    return
            if mode == 'e':
                if kfac_state(pre) != before_k:
                    bad('eval-changed-state', f'step {step}: an eval-mode '
                        'forward/backward pass changed K-FAC state')
                    return
                continue
            if not pre._layers:
                continue
            s0 = snapshot(model)
            pre.step()
            s1 = snapshot(model)
            trained = True
            for k in s0['state']:
                if not torch.equal(s0['state'][k], s1['state'][k]):
                    bad('param-or-buffer', f'step {step}: step() changed '
                        f'{k}')
                    return
            for n in s0['grad']:
                g0, g1 = s0['grad'][n], s1['grad'][n]
                if n not in reg:
                    if (g0 is None) != (g1 is None) or (
                            g0 is not None and not torch.equal(g0, g1)):
                        bad('foreign-grad', f'step {step}: gradient of '
                            f'unregistered parameter {n} changed')
                        return
                    if s0['meta'][n] != s1['meta'][n]:
                        bad('foreign-grad-meta', f'step {step}: {n}')
                        return
                else:
                    if s0['meta'][n] != s1['meta'][n]:
                        bad('grad-meta', f'step {step}: {n} metadata '
                            f"{s0['meta'][n]} -> {s1['meta'][n]}")
                        return
                    if not torch.isfinite(g1).all():
                        bad('nonfinite', f'step {step}: {n} not finite')
                        return
            # twin follows
            with torch.no_grad():
                for (n, p), (_, q) in zip(model.named_parameters(),
                                          twin.named_parameters()):
                    if p.grad is not None:
                        p.add_(p.grad, alpha=-0.05)
                        q.add_(p.grad, alpha=-0.05)
            for (kb, b), (_, c) in zip(model.named_buffers(),
                                       twin.named_buffers()):
                if not torch.equal(b, c):
                    bad('buffer', f'step {step}: buffer {kb} differs from '
                        'the twin')
                    return
        if trained and reg and len(reg) < len(list(model.parameters())):
            part.seen('nontrivial', name)
    except Exception as e:  # noqa
        bad(f'exception:{type(e).__name__}', str(e)[:300])


def overflow_case(part, item):
    """float16 parameters whose clip inner product overflows to +inf and
    -inf: finite inputs must still give finite registered gradients."""
    import torch as _t
    from vf import kfacrun as K

    model, mult, rho, method, prediv = item
    if rho == 'f16-factors':
        # float16 FACTORS with many rows of large inputs: the batch moments
        # are O(1e3) although the raw sums of squares exceed the range
        cfg = {'model': model, 'dtype': 'f32', 'batch': 64, 'world': 1,
               'seed': 0, 'x_mult': mult, 'loss_mult': 0.1, 'sgd_lr': 0.0,
               'kfac': dict(damping=0.1, factor_decay=0.5, kl_clip=1e-3,
                            lr=0.1, factor_dtype='f16', compute_method=method,
                            compute_eigenvalue_outer_product=prediv),
               'history': [['train']] * 3}
    else:
        cfg = {'model': model, 'dtype': 'f16', 'batch': 3, 'world': 1,
               'seed': 0,
               'kfac': dict(damping=0.001, factor_decay=0.5, kl_clip=1e-3,
                            lr=0.1, factor_dtype='f32',
                            factor_update_steps=10, inv_update_steps=1,
                            compute_method=method,
                            compute_eigenvalue_outer_product=prediv),
               'sgd_lr': 0.0, 'loss_mult': mult,
               'history': [['train'], ['setcorr', rho], ['train'], ['train']]}
    name = f'overflow/{model}/f16/mult={mult}/rho={rho}/{method}/{prediv}'
    part.count('evaluations')
    try:
        rec, _ = K.run_single(cfg)
    except Exception as e:  # noqa
        part.violation(f'exception:{type(e).__name__}:f16', f'{name}: {e}',
                       {'overflow': list(item)})
        return
    for t, ev in enumerate(rec):
        if ev['op'][0] != 'train':
            continue
        if not all(_t.isfinite(g).all() for g in ev['D'].values()):
            return  # inputs not finite: outside the statement
        prods = [(ev['P'][pn].float() * ev['D'][pn].float()) for pn in ev['P']]
        if any((p.abs() > 65504).any() for p in prods) or \
                rho == 'f16-factors':
            part.seen('nontrivial', name)
        for pn, g in ev['P'].items():
            if not _t.isfinite(g).all():
                part.violation(
                    'nonfinite:f16', f'{name} op {t}: gradient of {pn} is '
                    'not finite although every input of step() was',
                    {'overflow': list(item)})
                return
            if ev['meta_after'][pn] != ev['meta_before'][pn]:
                part.violation('grad-meta:f16', f'{name} op {t}: {pn}',
                               {'overflow': list(item)})
                return


def main(run: core.Run):
    thorough = run.tier == 'thorough'
    maxl = 3
    items = []
    progs = []
    for n in range(1, maxl + 1):
        progs += list(itertools.combinations_with_replacement(LEAVES, n))
    methods = [('eigen', True), ('eigen', False), ('inverse', False)]
    dts = [('f32', 'f32', None), ('f64', 'f32', None), ('f32', 'f32', 'f32')]
    if thorough:
        dts += [('f64', 'f64', 'f64'), ('f32', 'f64', 'f64'),
                ('bf16', 'f32', None)]
    mode_hists = [''.join(m) for m in itertools.product('te', repeat=3)]
    i = 0
    for kinds in progs:
        for (dname, idt, fdt), (m, p) in itertools.product(dts, methods):
            i += 1
            if thorough:
                hs = mode_hists
            else:
                hs = [mode_hists[(i + run.seed) % 8],
                      mode_hists[(3 * i + 1 + run.seed) % 8]]
            kls = [1e-3, 1e30, None]
            has = [(True, 1), (False, 1), (True, 2), (False, 2)]
            for j, h in enumerate(hs):
                for kl in (kls if thorough else [kls[(i + j) % 3]]):
                    for ha in (has if thorough else [has[(i + 2 * j) % 4]]):
                        # AMP: a gradient scaler is supplied (scale 8)
                        sc = 8.0 if (i + j + len(items)) % 3 == 0 else None
                        items.append((kinds, dname, (m, p), idt, fdt, h,
                                      run.seed, kl, ha, sc))
    core.pmap(run, case, items)
    ov = [(m, mult, rho, meth, pre) for m in ('lin1', 'mlp2')
          for mult in (300.0, 1000.0) for rho in (0.9, 0.97)
          for meth, pre in (('eigen', True), ('eigen', False),
                            ('inverse', False))]
    ov += [(m, 40.0, 'f16-factors', meth, pre) for m in ('lin1', 'mlp2')
           for meth, pre in (('eigen', True), ('eigen', False),
                             ('inverse', False))]
    core.pmap(run, overflow_case, ov, chunk=1)
    run.c['states'] = run.c.get('evaluations', 0)
    run.c['transitions'] = run.c.get('evaluations', 0)
    run.c['distinct_nontrivial'] = len(run.distinct.get('nontrivial', ()))
    run.notes['programs'] = len(progs)
    run.rule = (
        f'every multiset of <= {maxl} leaves from 14 kinds (Linear/Conv2d '
        '+/- bias, BatchNorm1d/2d with buffers, LayerNorm, Embedding, an '
        'unsupported custom module, frozen and half-frozen Linear, a Linear '
        'excluded by a skip pattern, a Linear subclass owning child layers, a Sequential chain) as parallel '
        'branches x parameter dtype x method x inverse/factor dtype x '
        'clipping {active, inactive, None} x hook/no-hook x accumulation {1,2} '
        '(with eval passes inserted between micro-batches and between '
        'backward and step) x gradient scaler {none, 8} x '
        'train/eval mode histories of length 3; bit-exact snapshots of '
        'state_dict and all .grad tensors around step(), digest of all '
        'K-FAC state around eval passes (whole model, and part of the model in eval mode), outputs/gradients vs a deep-copied '
        'twin without K-FAC; non-trivial = trained programs mixing '
        'registered and unregistered parameters; plus a float16 family whose '
        'clip inner product overflows to +inf and -inf (finite inputs must '
        'give finite gradients)')
    run.sample({'leaves': list(progs[len(progs) // 2]), 'modes': 'tet'})
    run.sample({'leaves': list(progs[-1]), 'modes': 'ett'})
    if not thorough:
        run.cap('quick runs 2 of the 8 mode histories per program '
                '(rotating with the seed)')
    run.assumptions.append('in-place activations are outside the grammar '
                           '(PyTorch forbids them behind full backward '
                           'hooks)')


def replay(run, data):
    part = core.Part()
    if 'overflow' in data['detail']:
        overflow_case(part, tuple(data['detail']['overflow']))
        run.merge(part.dump())
        return
    it = data['detail']['item']
    case(part, (tuple(it[0]), it[1], tuple(it[2]), it[3], it[4], it[5],
                it[6]) + tuple(tuple(x) if isinstance(x, list) else x
                               for x in it[7:]))
    run.merge(part.dump())
