"""C17 - greedy assignment: complete, group-confined, greedy, balanced, pure."""
from __future__ import annotations

import copy
import itertools

from vf import core


def set_partitions(n):
    """All partitions of range(n) into non-empty blocks (canonical order)."""
    def rec(i, blocks):
        if i == n:
            yield [list(b) for b in blocks]
            return
        for b in blocks:
            b.append(i)
            yield from rec(i + 1, blocks)
            b.pop()
        blocks.append([i])
        yield from rec(i + 1, blocks)
        blocks.pop()
    yield from rec(0, [])


def work_dicts(max_layers, max_factors, costs):
    names = ['A', 'G', 'H']
    per_layer = []
    for nf in range(1, max_factors + 1):
        for cs in itertools.product(costs, repeat=nf):
            per_layer.append(dict(zip(names[:nf], cs)))
    for nl in range(1, max_layers + 1):
        for combo in itertools.product(per_layer, repeat=nl):
            yield {f'l{i}': dict(c) for i, c in enumerate(combo)}


# --------------------------------------------------------------- oracle
def greedy_consistent(work, groups, colocate, result):
    """Is `result` producible by SOME least-loaded greedy run respecting the
    stated orders (ties broken arbitrarily)?  Brute force; inputs are tiny."""
    n = 1 + max((r for g in groups for r in g), default=0)
    totals = {l: sum(f.values()) for l, f in work.items()}
    gidx = {}
    for l in work:
        ranks = set(result[l].values())
        for i, g in enumerate(groups):
            if ranks <= set(g):
                gidx[l] = i
                break
        else:
            return False

    def place_factors(layer, items, loads, cont):
        """items: remaining (factor, cost); ties in cost in any order."""
        if not items:
            return cont(loads)
        mx = max(c for _, c in items)
        g = groups[gidx[layer]]
        for f, c in [x for x in items if x[1] == mx]:
            w = result[layer][f]
            if loads[w] != min(loads[i] for i in g):
                continue
            nl = list(loads)
            nl[w] += c
            if place_factors(layer, [x for x in items if x[0] != f], nl,
                             cont):
                return True
        return False

    def rec(remaining, loads):
        if not remaining:
            return True
        mx = max(totals[l] for l in remaining)
        for l in [x for x in remaining if totals[x] == mx]:
            gl = [sum(loads[i] for i in g) for g in groups]
            if gl[gidx[l]] != min(gl):
                continue
            rest = [x for x in remaining if x != l]
            if colocate:
                ws = set(result[l].values())
                if len(ws) != 1:
                    return False
                w = next(iter(ws))
                if loads[w] != min(loads[i] for i in groups[gidx[l]]):
                    continue
                nl = list(loads)
                nl[w] += totals[l]
                if rec(rest, nl):
                    return True
            else:
                if place_factors(l, list(work[l].items()), [
                        *loads], lambda nl: rec(rest, nl)):
                    return True
        return False

    return rec(list(work), [0.0] * n)


def check_case(part, item):
    from kfac.assignment import KAISAAssignment

    work, groups, colocate, world = item
    part.count('evaluations')
    w0, g0 = copy.deepcopy(work), copy.deepcopy(groups)
    key = f'work={work} groups={groups} colocate={colocate}'
    det = {'work': work, 'groups': groups, 'colocate': colocate,
           'world': world}

    def bad(kind, text):
        part.violation(f'{kind}:colocate={colocate}', f'{text}: {key}', det)

    try:
        res = KAISAAssignment.greedy_assignment(work, groups, world, colocate)
    except Exception as e:  # noqa
        bad('exception', f'{type(e).__name__}: {e}')
        return
    if work != w0 or groups != g0:
        bad('mutated-args', 'arguments were mutated')
    valid = {r for g in groups for r in g}
    # 1 completeness
    if set(res) != set(work) or any(
            set(res[l]) != set(work[l]) for l in work):
        bad('incomplete', f'result keys differ from work keys: {res}')
        return
    for l in work:
        for f, r in res[l].items():
            if not isinstance(r, int) or r not in valid:
                bad('invalid-rank', f'{l}/{f} -> {r!r}')
                return
        ranks = set(res[l].values())
        if not any(ranks <= set(g) for g in groups):
            bad('group-confined', f'{l} spread over groups: {res[l]}')
            return
        if colocate and len(ranks) != 1:
            bad('colocate', f'{l} on several workers: {res[l]}')
            return
    # 3 greedy order
    if not greedy_consistent(work, groups, colocate, res):
        bad('not-greedy', f'no least-loaded greedy run yields {res}')
        return
    # 4 balance bounds
    loads = {r: 0.0 for r in valid}
    for l in work:
        for f, r in res[l].items():
            loads[r] += work[l][f]
    totals = [sum(f.values()) for f in work.values()]
    items = totals if colocate else [c for f in work.values()
                                     for c in f.values()]
    for g in groups:
        ls = [loads[r] for r in g]
        if max(ls) - min(ls) > max(items):
            bad('worker-balance', f'worker loads {ls} in group {g} differ by '
                f'more than the largest item {max(items)}')
    gls = [sum(loads[r] for r in g) for g in groups]
    if max(gls) - min(gls) > max(totals):
        bad('group-balance', f'group loads {gls} differ by more than the '
            f'largest layer {max(totals)}')
    # 5 purity: unrelated call in between, deep-copied arguments
    KAISAAssignment.greedy_assignment(
        {'zz': {'A': 7.0, 'G': 1.0}, 'yy': {'A': 3.0}},
        [[r] for r in sorted(valid)], world, not colocate)
    res2 = KAISAAssignment.greedy_assignment(
        copy.deepcopy(w0), copy.deepcopy(g0), world, colocate)
    if res2 != res:
        bad('impure', f'second call returned {res2}, first {res}')
    spread = len({r for l in res for r in res[l].values()})
    if spread > 1 and len(work) > 1:
        part.seen('nontrivial', repr((work, groups, colocate)))


WIDE = [2.0 ** -10, 2.0 ** 30, 3 * 2.0 ** 20, 0.0, 1.0, 2.0 ** 30]


XPROC = r"""
import json, sys
sys.path.insert(0, sys.argv[1])
from kfac.assignment import KAISAAssignment
out = {}
names = ['conv1', 'layer1.0.conv1', 'layer1.0.conv2', 'fc', 'head', 'b', 'a',
         'zz', 'block.3.mlp', 'x' * 9]
for nl in (2, 3, 5, 8, 10):
    for tie in (1.0, 0.0, 7.5):
        work = {n: {'A': tie, 'G': tie} for n in names[:nl]}
        work[names[0]] = {'A': tie, 'G': tie + (1.0 if nl % 2 else 0.0)}
        for groups in ([[0]], [[0, 1]], [[0], [1]], [[0, 1], [2, 3]],
                       [[0, 2], [1, 3]], [[0, 1, 2]]):
            world = max(max(g) for g in groups) + 1
            for col in (True, False):
                res = KAISAAssignment.greedy_assignment(
                    work, [list(g) for g in groups], world, col)
                out[f'{nl}/{tie}/{groups}/{col}'] = res
print(json.dumps(out, sort_keys=True))
"""


def cross_process(run):
    """Pure function of its arguments also across interpreters: string
    hashing differs per process (PYTHONHASHSEED), ties must not follow it."""
    import json
    import os
    import subprocess

    procs = {}
    for hs in ('0', '1', '4242', 'random'):
        procs[hs] = subprocess.Popen(
            ['/venv/bin/python', '-W', 'ignore', '-c', XPROC, core.REPO],
            stdout=subprocess.PIPE, stderr=subprocess.PIPE, text=True,
            env=dict(os.environ, PYTHONHASHSEED=hs))
    outs = {}
    for hs, p in procs.items():
        o, e = p.communicate(timeout=600)
        if p.returncode:
            run.violation('xproc-exception', f'hash seed {hs}: {e[-300:]}')
            return
        outs[hs] = json.loads(o)
    ref = outs['0']
    run.count('evaluations', sum(len(o) for o in outs.values()))
    for hs, o in outs.items():
        for key in ref:
            if o[key] != ref[key]:
                run.violation(
                    'xproc-differs',
                    f'greedy_assignment for {key} (layers/tie cost/groups/'
                    f'colocate) under PYTHONHASHSEED={hs} gives {o[key]} but '
                    f'{ref[key]} under PYTHONHASHSEED=0')
                return
    run.seen('nontrivial', ('xproc', len(ref)))


def main(run: core.Run):
    thorough = run.tier == 'thorough'
    maxw = 6 if thorough else 5
    items = []
    parts = []
    for n in range(1, maxw + 1):
        for p in set_partitions(n):
            parts.append((n, p))
            if thorough and n <= 4:
                rev = [list(reversed(g)) for g in reversed(p)]
                if rev != p:
                    parts.append((n, rev))
    boxes = [(3, 2, (0, 1, 2)), (2, 3, (0, 1, 2))]
    if thorough:
        boxes = [(3, 2, (0, 1, 2, 3)), (2, 3, (0, 1, 2, 3)),
                 (3, 3, (0, 1, 2))]
    seen = set()
    for ml, mf, costs in boxes:
        for work in work_dicts(ml, mf, costs):
            k = repr(work)
            if k in seen:
                continue
            seen.add(k)
            for n, p in parts:
                if thorough and n == 6 and len(work) == 3 and \
                        max(len(f) for f in work.values()) == 3:
                    continue
                for col in (True, False):
                    items.append((work, p, col, n))
    # wide-range catalogue (exactly representable, sums exact)
    for nl in (1, 2, 3, 5):
        for off in range(len(WIDE)):
            work = {f'w{i}': {'A': WIDE[(off + i) % len(WIDE)],
                              'G': WIDE[(off + 2 * i + 1) % len(WIDE)]}
                    for i in range(nl)}
            for n, p in parts:
                for col in (True, False):
                    items.append((work, p, col, n))
    # large near-equal costs (differences below float32 resolution)
    for nl in (3, 5, 8):
        for off in (0, 1):
            work = {f'h{i}': {'A': 2.0 ** 24 + i + off, 'G': float(i % 2)}
                    for i in range(nl)}
            work['t0'] = {'A': 1.0, 'G': 0.0}
            work['t1'] = {'A': 0.0, 'G': 1.0 + off}
            for n, p in parts:
                for col in (True, False):
                    items.append((work, p, col, n))
    # world_size larger than the ranks mentioned (loads array is longer)
    for n, p in parts[:20]:
        items.append(({'a': {'A': 2, 'G': 1}, 'b': {'A': 1, 'G': 1}}, p,
                      False, n + 3))
    run.notes['partitions'] = len(parts)
    run.notes['work_dicts'] = len(seen)
    core.pmap(run, check_case, items, chunk=2000)
    cross_process(run)
    run.c['states'] = run.c.get('evaluations', 0)
    run.c['transitions'] = run.c.get('evaluations', 0)
    run.c['distinct_nontrivial'] = len(run.distinct.get('nontrivial', ()))
    run.rule = (
        f'every set partition of worlds 1..{maxw} into worker groups x every '
        f'work dictionary in the boxes {boxes} (max layers, max factors per '
        'layer, cost alphabet) + a wide-range catalogue + large near-equal '
        'costs (2^24 + i) x colocate on/off; '
        'depth-2 call histories for purity, and tie-heavy dictionaries with string names in 4 interpreters with different hash seeds; non-trivial = >1 layer and the '
        'result uses >1 worker')
    run.sample(items[len(items) // 2])
    run.sample(items[-1])
    run.assumptions.append('costs outside the alphabet {0..3} and the '
                           'power-of-two catalogue are not explored')


def replay(run, data):
    d = data['detail']
    part = core.Part()
    check_case(part, (d['work'], d['groups'], d['colocate'], d['world']))
    run.merge(part.dump())
