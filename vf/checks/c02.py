"""C02 - distributed work placement is semantically transparent."""
from __future__ import annotations

import copy
import itertools

import torch

from vf import core
from vf import distcheck as DC
from vf import kfacrun as K
from vf.simdist import FIXED_SCHEDULES

CAPS = {'none': 0.0, 'tiny': 1e-6, 'two': 2e-4, 'big': 25.0}


def name_of(cfg):
    k = cfg['kfac']
    return (f"{cfg['model']}/w{cfg['world']}/gwf={k['grad_worker_fraction']}"
            f"/col={k.get('colocate_factors', True)}/"
            f"{k.get('assignment_strategy', 'compute')}/cap="
            f"{k.get('allreduce_bucket_cap_mb', 25.0)}/sym="
            f"{k.get('symmetry_aware', False)}/{K.method_of(cfg)}/idt="
            f"{k.get('inv_dtype')}/fdt={k.get('factor_dtype')}")


def divisors(n):
    return [d for d in range(1, n + 1) if n % d == 0]


def base_kfac(method, prediv):
    return dict(damping=0.05, factor_decay=0.5, kl_clip=1e-3, lr=0.1,
                compute_method=method,
                compute_eigenvalue_outer_product=prediv)


def oracle_for(cfg, part=None):
    ref = K.reference(cfg)

    def oracle(world):
        results = world.results
        v, biteq = DC.cross_rank(cfg, results)
        if part is not None and not biteq:
            part.count('runs_not_bit_identical_across_ranks')
        v += DC.vs_reference(cfg, results, ref, stats=part)
        return v

    return oracle


def fixed_case(part, item):
    cfg, snames = item
    name = name_of(cfg)
    try:
        orc = oracle_for(cfg, part)
    except Exception as e:  # noqa
        part.violation(f'reference-exception:{type(e).__name__}',
                       f'{name}: {e}', {'cfg': cfg})
        return
    traces = set()
    for sname in snames:
        try:
            w, bad = DC.run_fixed(cfg, sname)
        except Exception as e:  # noqa
            part.violation(f'exception:{type(e).__name__}',
                           f'{name} [{sname}]: {e}', {'cfg': cfg,
                                                      'schedule': sname})
            return
        part.count('executions')
        part.count('transitions', w.stats['points'])
        part.count('states', w.stats['points'] + 1)
        vs = bad or orc(w)
        if vs:
            kinds = '+'.join(sorted({k for k, _ in vs}))
            part.violation(
                f"{kinds}:{K.method_of(cfg)}:w{cfg['world']}",
                f'{name} [{sname}]: {vs[0][1]}',
                {'cfg': cfg, 'schedule': sname, 'mode': 'fixed',
                 'all': [t for _, t in vs[:5]]})
            return
        traces.add(repr([(e['kind'], e['ranks'], e['numel'])
                         for e in w.trace[0]]))
    part.seen('collective_traces', next(iter(traces)))
    if cfg['world'] > 1:
        part.seen('nontrivial', name)


def accum_case(part, cfg):
    """(ii) the library's own meaning of 'K-FAC on the union of batches':
    single-process K-FAC with accumulation_steps = N fed the per-rank
    batches as micro-batches."""
    name = name_of(cfg)
    c1 = copy.deepcopy(cfg)
    n = cfg['world']
    c1['world'] = 1
    c1['as_ranks'] = True
    c1['kfac']['accumulation_steps'] = n
    c1['kfac'].pop('grad_worker_fraction', None)
    try:
        rec, _ = K.run_single(c1)
        ref = K.reference(cfg)
    except Exception as e:  # noqa
        part.violation(f'accum-exception:{type(e).__name__}', f'{name}: {e}',
                       {'cfg': cfg, 'mode': 'accum'})
        return
    part.count('executions')
    vs = DC.vs_reference(cfg, [rec], ref, stats=part, who='accum-emulation ')
    if vs:
        part.violation(f'accum:{vs[0][0]}', f'{name}: {vs[0][1]}',
                       {'cfg': cfg, 'mode': 'accum'})


def explore_case(part, item):
    cfg, delivery, bound = item
    name = name_of(cfg) + f'/hist={len(cfg["history"])}/{delivery}' + \
        (f'/dev<={bound}' if bound is not None else '/exhaustive')
    viols = []
    fine = delivery == 'fine'
    try:
        if fine:
            # completions may land between any two lines of kfac code
            from vf import explore
            explore.FINE['files'] = (
                'kfac/distributed.py', 'kfac/layers/base.py',
                'kfac/layers/eigen.py', 'kfac/layers/inverse.py',
                'kfac/base_preconditioner.py')
            try:
                res = DC.explore_cfg(cfg, 'free', oracle_for(cfg), bound)
            finally:
                explore.FINE['files'] = ()
        else:
            res = DC.explore_cfg(cfg, delivery, oracle_for(cfg), bound)
    except Exception as e:  # noqa
        part.violation(f'harness:{type(e).__name__}', f'{name}: {e}',
                       {'cfg': cfg, 'mode': 'explore'})
        return
    DC.absorb(part, res, name, viols)
    part.seen('nontrivial', name)
    if viols:
        kinds = '+'.join(sorted({k for k, _ in viols}))
        part.violation(f"{kinds}:{K.method_of(cfg)}:w{cfg['world']}:explore",
                       f'{name}: {viols[0][1]}',
                       {'cfg': cfg, 'mode': 'explore', 'delivery': delivery,
                        'bound': bound, 'all': [t for _, t in viols[:4]],
                        'schedule_list': DC.LAST_SCHEDULE[0]})


def configs(thorough, seed):
    out = []
    methods = [('eigen', True), ('eigen', False), ('inverse', False)]
    worlds = [1, 2, 3, 4] + ([6, 8] if thorough else [])
    for world in worlds:
        for k in divisors(world):
            fracs = [k / world]
            if k == world:
                fracs.append('COMM_OPT')
            if k == 1:
                fracs.append('MEM_OPT')
            if world % 2 == 0 and k == world // 2:
                fracs.append('HYBRID_OPT')
            for frac, col, strat, cap, sym, (m, pre), model in \
                    itertools.product(
                        fracs, (True, False), ('compute', 'memory'),
                        CAPS.values(), (False, True), methods,
                        ('mlp3', 'conv')):
                if pre and not col:
                    continue  # rejected by the constructor
                if isinstance(frac, str) and (cap not in (0.0, 25.0)
                                              or strat == 'memory'):
                    continue
                if world > 4 and (model == 'conv' or cap in (1e-6,)
                                  or strat == 'memory'):
                    continue
                kk = base_kfac(m, pre)
                kk.update(grad_worker_fraction=frac, colocate_factors=col,
                          assignment_strategy=strat,
                          allreduce_bucket_cap_mb=cap, symmetry_aware=sym)
                out.append({'model': model, 'dtype': 'f32', 'batch': 2,
                            'world': world, 'seed': seed, 'kfac': kk,
                            'history': [['train']] * (2 if world > 4
                                                      else 3)})
    # second-order / factor dtypes that differ from the parameter dtype
    for world in (2, 4):
        for frac, (m, pre), (idt, fdt), cap, sym in itertools.product(
                ['COMM_OPT', 'MEM_OPT'] + (['HYBRID_OPT'] if world == 4
                                           else []),
                methods, [('f64', None), ('f64', 'f64'), ('f32', 'f64')],
                (0.0, 25.0), (False, True)):
            kk = base_kfac(m, pre)
            kk.update(grad_worker_fraction=frac, inv_dtype=idt,
                      allreduce_bucket_cap_mb=cap, symmetry_aware=sym)
            if fdt:
                kk['factor_dtype'] = fdt
            out.append({'model': 'mlp3', 'dtype': 'f32', 'batch': 2,
                        'world': world, 'seed': seed, 'kfac': kk,
                        'history': [['train']] * 2})
    # bias-free layers (the module gradient IS the weight gradient tensor:
    # aliasing between what is sent and what is written back) with active
    # clipping
    for world, frac in ((2, 'MEM_OPT'), (2, 'COMM_OPT'), (4, 'HYBRID_OPT'),
                        (4, 'MEM_OPT'), (3, 1 / 3)):
        for (m, pre), cap in itertools.product(methods, (0.0, 25.0)):
            kk = base_kfac(m, pre)
            kk.update(grad_worker_fraction=frac, allreduce_bucket_cap_mb=cap)
            out.append({'model': 'nbfirst', 'dtype': 'f32', 'batch': 2,
                        'world': world, 'seed': seed, 'kfac': kk,
                        'loss_mult': 5.0, 'history': [['train']] * 3})
    return out


def explorations(thorough, seed):
    out = []

    def cfg(model, world, frac, m, pre, cap, its, sym=False, col=True):
        kk = base_kfac(m, pre)
        kk.update(grad_worker_fraction=frac, allreduce_bucket_cap_mb=cap,
                  symmetry_aware=sym, colocate_factors=col)
        return {'model': model, 'dtype': 'f32', 'batch': 2, 'world': world,
                'seed': seed, 'kfac': kk, 'record_factors': False,
                'history': [['train']] * its}

    for frac in ('MEM_OPT', 'COMM_OPT'):
        for cap in (0.0, 25.0):
            for m, pre in (('eigen', True), ('inverse', False)):
                out.append((cfg('mlp2', 2, frac, m, pre, cap, 2), 'eager',
                            None))
    out.append((cfg('lin1', 2, 'COMM_OPT', 'eigen', True, 25.0, 1), 'free',
                None))
    out.append((cfg('mlp2', 2, 'MEM_OPT', 'inverse', False, 0.0, 1, True),
                'free', None))
    out.append((cfg('lin1', 4, 'HYBRID_OPT', 'eigen', True, 25.0, 1),
                'eager', None))
    out.append((cfg('mlp2', 2, 'COMM_OPT', 'eigen', False, 0.0, 1,
                    col=False), 'eager', None))
    out.append((cfg('mlp3', 4, 'HYBRID_OPT', 'eigen', True, 25.0, 3),
                'eager', 1))
    out.append((cfg('lin1', 2, 'COMM_OPT', 'eigen', True, 25.0, 1),
                'fine', 1))
    if thorough:
        out.append((cfg('lin1', 2, 'COMM_OPT', 'eigen', True, 25.0, 2),
                    'fine', 1))
        out.append((cfg('mlp2', 2, 'COMM_OPT', 'inverse', False, 0.0, 2),
                    'fine', 1))
        out.append((cfg('lin1', 4, 'HYBRID_OPT', 'eigen', False, 25.0, 1),
                    'fine', 1))
        out.append((cfg('lin1', 2, 'COMM_OPT', 'eigen', True, 25.0, 1),
                    'fine', 2))
        out.append((cfg('mlp2', 2, 'COMM_OPT', 'eigen', True, 25.0, 1),
                    'free', None))
        for k in (1, 3):
            for m, pre in (('eigen', True), ('inverse', False)):
                out.append((cfg('mlp2', 3, k / 3, m, pre, 25.0, 1), 'eager',
                            None))
        for frac in ('MEM_OPT', 'HYBRID_OPT', 'COMM_OPT'):
            out.append((cfg('mlp2', 4, frac, 'eigen', True, 25.0, 1),
                        'eager', None))
        out.append((cfg('mlp3', 4, 'HYBRID_OPT', 'eigen', True, 25.0, 3),
                    'eager', 2))
        out.append((cfg('mlp3', 3, 1 / 3, 'inverse', False, 0.0, 3), 'eager',
                    2))
        out.append((cfg('lin1', 4, 'HYBRID_OPT', 'inverse', False, 0.0, 1,
                        True), 'free', None))
    return out


def conformance(run, thorough):
    """simdist vs real gloo processes on the same programs (DESIGN 2.7).
    Runs in the main process (pool workers cannot fork children)."""
    from vf import gloo_conf as GC

    sets = [(2, 'COMM_OPT', 'eigen', True, 25.0, False),
            (2, 'MEM_OPT', 'inverse', False, 0.0, True),
            (4, 'HYBRID_OPT', 'eigen', True, 25.0, False),
            (4, 'HYBRID_OPT', 'inverse', False, 0.0, True),
            (4, 'MEM_OPT', 'eigen', False, 1e-6, False),
            (3, 1 / 3, 'eigen', True, 2e-4, True)]
    if thorough:
        sets += [(w, f, m, p, c, s) for w, f in
                 ((2, 'COMM_OPT'), (2, 'MEM_OPT'), (4, 'COMM_OPT'),
                  (4, 'HYBRID_OPT'), (4, 'MEM_OPT'), (3, 1.0))
                 for (m, p) in (('eigen', True), ('eigen', False),
                                ('inverse', False))
                 for c, s in ((0.0, False), (25.0, True))]
    for world, frac, m, pre, cap, sym in sets:
        kk = base_kfac(m, pre)
        kk.update(grad_worker_fraction=frac, allreduce_bucket_cap_mb=cap,
                  symmetry_aware=sym)
        cfg = {'model': 'mlp3', 'dtype': 'f32', 'batch': 2, 'world': world,
               'seed': run.seed, 'kfac': kk, 'history': [['train']] * 2}
        dis, err = None, None
        for attempt in range(3):
            try:
                dis = GC.compare(world, K.make_program(cfg),
                                 GC.cmp_kfac_records)
                break
            except Exception as e:  # noqa  (port clash, loaded machine)
                err = str(e)[-200:]
        if dis is None:
            # the environment could not be run: no verdict either way
            run.count('conformance_runs_skipped')
            run.notes.setdefault('conformance_skipped', []).append(
                f'{name_of(cfg)}: {err}')
            continue
        run.count('traces_validated_against_impl', world)
        run.count('gloo_collectives_compared', GC.LAST['collectives'])
        if dis:
            run.violation(f'conformance:w{world}',
                          f'{name_of(cfg)}: simdist and real gloo disagree: '
                          f'{dis[0]}', {'cfg': cfg, 'mode': 'conformance'})


def any_case(part, item):
    kind, payload = item
    {'fixed': fixed_case, 'accum': accum_case,
     'explore': explore_case}[kind](part, payload)


def main(run: core.Run):
    thorough = run.tier == 'thorough'
    cfgs = configs(thorough, run.seed)
    if thorough:
        snames = tuple(FIXED_SCHEDULES)
    else:
        snames = ('S0-lowest-eager', 'S3-lowest-lazy-poison',
                  ('S1-highest-eager', 'S2-roundrobin-eager')[run.seed % 2])
    items = [('fixed', (c, snames)) for c in cfgs]
    seen = set()
    for c in cfgs:
        key = (c['model'], c['world'], K.method_of(c))
        if c['world'] > 1 and key not in seen:
            seen.add(key)
            items.append(('accum', c))
    exps = explorations(thorough, run.seed)
    items += [('explore', e) for e in exps]

    def weight(it):
        if it[0] == 'explore':
            c, d, b = it[1]
            return 4000 * c['world'] * len(c['history']) * (
                4 if d in ('free', 'fine') else 1)
        c = it[1][0] if it[0] == 'fixed' else it[1]
        return c['world'] ** 2 * len(c['history'])

    core.pmap(run, any_case, items, weight=weight)
    conformance(run, thorough)
    run.c['evaluations'] = run.c.get('executions', 0)
    run.c['distinct_nontrivial'] = len(run.distinct.get('nontrivial', ()))
    run.notes['configurations_fixed_schedules'] = len(cfgs)
    run.notes['distinct_collective_traces'] = len(
        run.distinct.get('collective_traces', ()))
    run.notes['explorations'] = len(exps)
    run.rule = (
        'configurations = world size x every divisor as gradient-worker '
        'count (float and enum) x colocate x COMPUTE/MEMORY x bucket '
        'capacity {0, <1 factor, ~2 factors, 25MB} x symmetry-aware x '
        '{eigen+prediv, eigen, inverse} x {MLP, conv+linear}, each run for '
        '2-3 steps with DDP-style gradient averaging under 4 fixed schedules '
        '(lowest/highest/round-robin eager, lazy delivery + NaN poisoning); '
        'gradients of every rank compared across ranks and with RefKFAC on '
        'the union of the per-rank batches (and with single-process K-FAC '
        'using accumulation); small configurations explored over ALL rank '
        'interleavings (explicit-state, merged by digest) resp. all '
        'schedules with <= d deviations; non-trivial = world > 1')
    run.sample(cfgs[len(cfgs) // 2])
    run.assumptions += ['simdist (validated against gloo in the thorough '
                        'tier, see DESIGN 2.7) stands in for the backend',
                        'tensor values from a fixed lattice']
    run.cap('the configuration sweep runs under fixed schedules; rank '
            'interleavings are exhaustive only in the listed explorations')


def replay(run, data):
    d = data['detail']
    part = core.Part()
    if d.get('mode') == 'explore' and d.get('schedule_list'):
        fine = ('kfac/distributed.py', 'kfac/layers/base.py',
                'kfac/layers/eigen.py', 'kfac/layers/inverse.py',
                'kfac/base_preconditioner.py') if d['delivery'] == 'fine' \
            else ()
        vs = DC.replay_schedule(d['cfg'], d['schedule_list'], d['delivery'],
                                oracle_for(d['cfg']), fine_files=fine)
        part.count('executions')
        if vs:
            part.violation(f'replay:{vs[0][0]}', vs[0][1], d)
    elif d.get('mode') == 'explore':
        explore_case(part, (d['cfg'], d['delivery'], d['bound']))
    elif d.get('mode') == 'accum':
        accum_case(part, d['cfg'])
    else:
        fixed_case(part, (d['cfg'], (d.get('schedule')
                                     or 'S0-lowest-eager',)))
    run.merge(part.dump())
