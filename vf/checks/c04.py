"""C04 - factors are decayed running averages of batch second moments."""
from __future__ import annotations

import itertools

import torch

from vf import core, simdist
from vf import kfacrun as K
from vf import oracles as O


def name_of(cfg):
    k = cfg['kfac']
    return (f"{cfg['model']}/{cfg['dtype']}/w{cfg['world']}/batch="
            f"{cfg['batch']}/F={k['factor_update_steps']}/decay="
            f"{k['factor_decay']}/acc={k.get('accumulation_steps', 1)}/hook="
            f"{k.get('update_factors_in_hook', True)}/scale="
            f"{cfg.get('scale')}/fdt={k.get('factor_dtype')}/"
            f"{k.get('compute_method', 'eigen')}/hist="
            f"{''.join({'train_reset': 'R', 'keep': 'K', 'rollback': 'B'}.get(o[0], o[0][0]) for o in cfg['history'])}")


def check_records(part, cfg, rec, ref, who=''):
    prev_f = None
    vs = []
    for ev, rv in zip(rec, ref):
        part.count('evaluations')
        if ev['op'][0] in ('train', 'train_reset'):
            if rv['factor_step']:
                vs += O.factors_vs_ref(cfg, ev, rv, who, stats=part)
            if prev_f is not None and not rv['factor_step']:
                for nm, st in ev['factors'].items():
                    for k in 'AG':
                        if not torch.equal(st[k], prev_f[nm][k]):
                            vs.append(('changed-on-non-update-step',
                                       f'{who}{nm}.{k} changed on a step '
                                       'that is not a factor-update step'))
            prev_f = ev['factors']
        elif ev['op'][0] == 'state':
            if prev_f is not None and 'state' in ev:
                for nm, st in ev['state']['layers'].items():
                    for k in 'AG':
                        if not torch.equal(st[k], prev_f[nm][k]):
                            vs.append(('changed-by-eval',
                                       f'{who}{nm}.{k} changed across an '
                                       'eval-mode pass'))
        if vs:
            break
    return vs


def case(part, cfg):
    name = name_of(cfg)
    n = cfg['world']
    try:
        ref = K.reference(cfg)
        if n == 1:
            rec, _ = K.run_single(cfg)
            recs = [(rec, '')]
            part.count('executions')
        else:
            recs = []
            for sname in ('S0-lowest-eager', 'S3-lowest-lazy-poison'):
                w = simdist.run_world(n, K.make_program(cfg), sname)
                part.count('executions')
                part.count('transitions', w.stats['points'])
                bad = list(w.violations) + [
                    ('exception', f'rank{r}: {e[0]}')
                    for r, e in enumerate(w.errors)
                    if e and e[0] != 'SimViolation']
                if bad:
                    part.violation(f'sim:{bad[0][0]}', f'{name} [{sname}]: '
                                   f'{bad[0][1]}', {'cfg': cfg})
                    return
                recs += [(w.results[r], f'[{sname}] rank{r}: ')
                         for r in range(n)]
    except Exception as e:  # noqa
        part.violation(f'exception:{type(e).__name__}', f'{name}: {e}',
                       {'cfg': cfg})
        return
    for rec, who in recs:
        vs = check_records(part, cfg, rec, ref, who)
        if vs:
            kinds = '+'.join(sorted({k for k, _ in vs}))
            part.violation(f'{kinds}:{cfg["model"]}', f'{name}: {vs[0][1]}',
                           {'cfg': cfg, 'all': [t for _, t in vs[:6]]})
            return
    part.seen('nontrivial', name)


def histories():
    # train / eval+state-query interleavings, always starting with a train
    out = []
    for tail in itertools.product('te', repeat=3):
        h = [['train']]
        for c in tail:
            h += [['train']] if c == 't' else [['eval'], ['state']]
        out.append(h + [['train']])
    # reset_batch() inside an accumulation window (a skipped / overflowed
    # micro-batch): the discarded statistics must not count
    out.append([['train'], ['train_reset', 1], ['train'], ['train_reset', 1],
                ['train']])
    # a state kept in memory (uncopied) while the factors are updated, then
    # loaded back: "previous" must be the kept factor
    out.insert(3, [['train'], ['keep'], ['train'], ['train'], ['rollback'],
                   ['train'], ['train']])
    return out


def configs(thorough, seed):
    out = []
    models = ['mlp3', 'conv', 'convsq', 'seq3d']
    batches = (1, 2, 3) if thorough else (1, 3)
    # the cyclic schedule returns exactly 1.0 on a later update step
    decays = [0.5, 0.95, 1.0, ['exp', 0.95], ['cyc', [0.5, 1.0, 0.7]]] \
        if thorough else [0.5, ['exp', 0.95], ['cyc', [0.5, 1.0, 0.7]]]
    accs = (1, 2, 3) if thorough else (1, 2)
    scales = [None, 8.0, ['cyc', [8.0, 2.0, 32.0]]] if thorough else \
        [None, ['cyc', [8.0, 2.0, 32.0]]]
    fdts = [None, 'f64', 'bf16'] + (['f32'] if thorough else [])
    hists = histories()
    i = 0
    for model, b, dec, acc, hook, sc, fdt, F in itertools.product(
            models, batches, decays, accs, (True, False), scales, fdts,
            (1, 2)):
        i += 1
        h = hists[(i + seed) % len(hists)] if not thorough else None
        for hist in ([h] if h else hists[::2]):
            if hist[1][0] == 'train_reset' and acc == 1:
                if thorough:
                    continue
                hist = hists[i % (len(hists) - 1)]
            if hist[1][0] == 'keep' and F != 1:
                # (roll-back needs second-order data right away)
                hist = hists[(i + 1) % 3]
            meth, pre = (('eigen', True), ('inverse', False), ('eigen', False),
                         ('inverse', False), ('eigen', True))[i % 5]
            k = dict(factor_update_steps=F,
                     inv_update_steps=(F, 3, 1)[i % 3],
                     damping=0.1, factor_decay=dec, kl_clip=1e-3, lr=0.1,
                     accumulation_steps=acc, update_factors_in_hook=hook,
                     compute_method=meth,
                     compute_eigenvalue_outer_product=pre)
            if fdt:
                k['factor_dtype'] = fdt
            cfg = {'model': model, 'dtype': 'f32', 'batch': b, 'world': 1,
                   'seed': seed, 'kfac': k, 'history': hist}
            if sc is not None:
                cfg['scale'] = sc
            out.append(cfg)
    # float16 factors with many rows of large inputs: the batch moment is
    # O(1e3) while the raw sum of squares exceeds the float16 range
    for model, b, hook, acc in itertools.product(
            ['lin1', 'seq3d'], (32, 64), (True, False), (1, 2)):
        k = dict(factor_update_steps=1, inv_update_steps=1, damping=0.1,
                 factor_decay=0.5, kl_clip=1e-3, lr=0.1, factor_dtype='f16',
                 accumulation_steps=acc, update_factors_in_hook=hook)
        out.append({'model': model, 'dtype': 'f32', 'batch': b, 'world': 1,
                    'seed': seed, 'kfac': k, 'x_mult': 40.0,
                    'loss_mult': 0.1, 'sgd_lr': 0.0,
                    'history': [['train']] * 3})
    # a layer with fewer backward than forward passes inside the window
    # (two heads, one of them reaching the loss per micro-batch): G is the
    # mean over the backward passes it saw
    for dec, fdt in itertools.product([0.5, 0.95], [None, 'f64']):
        k = dict(factor_update_steps=1, inv_update_steps=1, damping=0.1,
                 factor_decay=dec, kl_clip=1e-3, lr=0.1,
                 accumulation_steps=2, update_factors_in_hook=False)
        if fdt:
            k['factor_dtype'] = fdt
        out.append({'model': 'twohead', 'dtype': 'f32', 'batch': 2,
                    'world': 1, 'seed': seed, 'kfac': k,
                    'history': [['train']] * 3})
    # distributed: mean over ranks
    for model, world, acc, hook, bucket, sym in itertools.product(
            ['mlp3', 'conv'], (2, 3), (1, 2), (True, False), (0.0, 25.0),
            (False, True)):
        k = dict(factor_update_steps=1, inv_update_steps=1, damping=0.1,
                 factor_decay=0.5, kl_clip=1e-3, lr=0.1,
                 accumulation_steps=acc, update_factors_in_hook=hook,
                 allreduce_bucket_cap_mb=bucket, symmetry_aware=sym)
        out.append({'model': model, 'dtype': 'f32', 'batch': 2,
                    'world': world, 'seed': seed, 'kfac': k,
                    'history': [['train'], ['train'], ['eval'], ['state'],
                                ['train']]})
    return out


def main(run: core.Run):
    thorough = run.tier == 'thorough'
    cfgs = configs(thorough, run.seed)
    core.pmap(run, case, cfgs,
              weight=lambda c: len(c['history']) * c['world'] ** 2)
    run.c['states'] = run.c.get('evaluations', 0)
    run.c['transitions'] = run.c.get('transitions', 0) + \
        run.c.get('evaluations', 0)
    run.c['distinct_nontrivial'] = len(run.distinct.get('nontrivial', ()))
    run.notes['configurations'] = len(cfgs)
    run.rule = (
        'configuration box {linear incl. N-d inputs, conv geometries} x '
        'batch x decay (constants, exp-decay schedule) x accumulation x '
        'hook/no-hook x loss scale (none, constant, changing per step) x '
        'factor dtype (incl. float16 with large raw sums) x factor interval {1,2} x compute method x train/eval '
        'histories and reset_batch() inside an accumulation window; plus '
        'simulated worlds 2 and 3 (bucketed/unbucketed, symmetric/dense); '
        'after every step the state_dict factors are compared with the '
        'float64 running average of reference moments captured on a '
        'K-FAC-free twin; symmetry, PSD, dtype; bit-stability across eval '
        'passes and non-update steps; evaluations = operations checked')
    run.sample(cfgs[len(cfgs) // 2])
    run.cap('worlds > 1 run under two fixed schedules')
    run.sample(cfgs[-1])
    run.assumptions += ['tensor values from a fixed rational lattice',
                        'quick: one history per configuration (rotating '
                        'with the seed)']
    if not thorough:
        run.cap('quick uses one train/eval history per configuration')


def replay(run, data):
    part = core.Part()
    case(part, data['detail']['cfg'])
    run.merge(part.dump())
