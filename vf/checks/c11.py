"""C11 - model-parallel sharding is transparent to GPT-NeoX K-FAC."""
from __future__ import annotations

import itertools

import torch

from vf import core, gptenv, simdist
from vf import distcheck as DC
from vf import gptrun as G
from vf import kfacrun as K
from vf import oracles as O

F64 = torch.float64


def name_of(cfg):
    k = cfg['kfac']
    return (f"{cfg.get('gmodel', 'gpt2l')}/seq={cfg.get('seq', 0)}/dp{cfg['dp']}xmp{cfg['mp']}/bias="
            f"{cfg.get('bias', True)}/kl={k['kl_clip']}/cap="
            f"{k.get('allreduce_bucket_cap_mb', 25.0)}/F="
            f"{k.get('factor_update_steps', 1)}/I="
            f"{k.get('inv_update_steps', 1)}/damp={k.get('damping')}/scale="
            f"{cfg.get('scale')}/steps={len(cfg['history'])}")


def oracle_for(cfg, stats=None):
    gptenv.install()
    gptenv.register_ref_models()
    rc = G.ref_cfg(cfg)
    ref = K.reference(rc)
    topo = gptenv.PipeModelDataParallelTopology(
        num_pp=1, num_mp=cfg['mp'], num_dp=cfg['dp'])
    bias = cfg.get('bias', True)

    def oracle(world):
        v = []
        n = world.n
        for r in range(n):
            co = topo.get_coord(r)
            rec = world.results[r]
            for t, (ev, rv) in enumerate(zip(rec, ref)):
                if ev['op'][0] != 'train':
                    continue
                # factors of the unsharded layer on the inverse worker
                for gname, st in ev['factors_here'].items():
                    rname = G.LAYERS[gname][0]
                    for fk, refm in (('A', rv['A'][rname]),
                                     ('G', rv['G'][rname])):
                        got = st[fk].to(F64)
                        if tuple(got.shape) != tuple(refm.shape):
                            v.append(('factor-shape', f'rank{r} {gname}.{fk}'
                                      f' has shape {tuple(got.shape)}, the '
                                      f'unsharded layer {tuple(refm.shape)}'))
                            continue
                        e = K.rel_err(got, refm)
                        if stats is not None:
                            stats.maxstat('factor_err', e)
                        if not e <= 5e-6:
                            v.append(('factor-value', f'rank{r} step {t}: '
                                      f'{gname}.{fk} differs from the '
                                      f'unsharded factor by {e:.2e}'))
                exp = G.expected_shards(cfg, rv, co)
                d7 = local_shard_scale(cfg, ev, rv, exp, bias)
                if d7 is not None:
                    v.append(('nu-from-local-shard', f'rank{r} {tuple(co)} '
                              f'step {t}: every gradient on this rank is '
                              f'{d7[0]:.4f} x the unsharded result: the '
                              f'clip scale {d7[1]:.4g} was computed from '
                              f'this rank\'s shards only (unsharded nu '
                              f'{rv["nu"]:.4g})'))
                    return v
                for gname, (we, be) in exp.items():
                    rname = G.LAYERS[gname][0]
                    A, Gm, lam0 = rv['so'][rname]
                    tol = O.C_TOL * 1.2e-7 * (1 + O.kappa(
                        'eigen', A, Gm, rv['damping']))
                    gw = ev['P'][f'{gname}.weight'].to(F64)
                    e = K.rel_err(gw, we)
                    if stats is not None:
                        stats.maxstat('grad_err_over_tol', e / tol)
                    if not e <= tol:
                        v.append(('grad', f'rank{r} {tuple(co)} step {t}: '
                                  f'{gname}.weight shard differs from the '
                                  f'unsharded result by {e:.2e} (tol '
                                  f'{tol:.1e}, nu_ref={rv["nu"]:.4g})'))
                    if bias:
                        gb = ev['P'][f'{gname}.bias'].to(F64)
                        eb = K.rel_err(gb, be)
                        if not eb <= tol:
                            v.append(('grad-bias', f'rank{r} {tuple(co)} '
                                      f'step {t}: {gname}.bias differs by '
                                      f'{eb:.2e} (nu_ref={rv["nu"]:.4g})'))
                if v:
                    return v
        # identical across data-parallel replicas; replicated parameters
        # identical across model-parallel peers
        for r in range(n):
            for q in range(r + 1, n):
                cr, cq = topo.get_coord(r), topo.get_coord(q)
                for ev, eq in zip(world.results[r], world.results[q]):
                    if ev['op'][0] != 'train':
                        continue
                    for pn, g in ev['P'].items():
                        same_shard = cr.model == cq.model
                        replicated = pn == '11.bias'
                        if same_shard or replicated:
                            e = K.rel_err(eq['P'][pn].to(F64), g.to(F64))
                            if not e <= 1e-6:
                                kind = 'replicas-differ' if same_shard \
                                    else 'mp-peers-differ'
                                v.append((kind, f'{pn} on rank{q} '
                                          f'{tuple(cq)} differs from rank{r} '
                                          f'{tuple(cr)} by {e:.2e}'))
                                return v
        for r in range(n):
            for e in world.trace[r]:
                if e['tag'] == ('final-flush',):
                    v.append(('pending-bucket', f'rank{r}'))
        return v

    return oracle


def local_shard_scale(cfg, ev, rv, exp, bias):
    """Recognise one specific deviation: all gradients of the rank equal
    c * expected with one common c, and c * nu_ref is exactly the clip scale
    obtained from the inner product over this rank's shards alone."""
    import math

    kl = rv['kl_clip']
    if kl is None or rv['nu'] <= 0:
        return None
    got, want, s_local = [], [], 0.0
    for gname, (we, be) in exp.items():
        pairs = [(f'{gname}.weight', we)] + (
            [(f'{gname}.bias', be)] if bias else [])
        for pn, e in pairs:
            g = ev['P'][pn].to(F64)
            got.append(g.reshape(-1))
            want.append(e.reshape(-1))
            V = e / rv['nu']
            s_local += (V * ev['D'][pn].to(F64)).sum().item() * rv['lr'] ** 2
    got, want = torch.cat(got), torch.cat(want)
    den = (want * want).sum().item()
    if den == 0:
        return None
    c = (got * want).sum().item() / den
    if abs(c - 1) < 1e-4:
        return None
    if (got - c * want).norm().item() > 1e-4 * want.norm().item():
        return None
    nu_local = 1.0 if s_local == 0 else min(1.0, math.sqrt(kl / abs(s_local)))
    if abs(c * rv['nu'] - nu_local) > 1e-4 * nu_local:
        return None
    return c, nu_local


def finding_key(cfg, kinds):
    k = cfg['kfac']
    clip = 'clip-active' if (k['kl_clip'] is not None
                             and k['kl_clip'] < 1e20) else 'clip-inactive'
    return (f"{'+'.join(sorted(kinds))}:mp{'>1' if cfg['mp'] > 1 else '=1'}:"
            f"{clip}:bias={cfg.get('bias', True)}")


def fixed_case(part, item):
    cfg, snames = item
    name = name_of(cfg)
    try:
        orc = oracle_for(cfg, part)
    except Exception as e:  # noqa
        part.violation(f'reference:{type(e).__name__}', f'{name}: {e}',
                       {'cfg': cfg})
        return
    for sname in snames:
        try:
            w = simdist.run_world(cfg['dp'] * cfg['mp'],
                                  G.make_program(cfg), sname)
        except Exception as e:  # noqa
            part.violation(f'harness:{type(e).__name__}', f'{name}: {e}',
                           {'cfg': cfg, 'schedule': sname})
            return
        bad = DC.sim_bad(w)
        part.count('executions')
        part.count('transitions', w.stats['points'])
        part.count('states', w.stats['points'] + 1)
        vs = bad or orc(w)
        if vs:
            part.violation(finding_key(cfg, {k for k, _ in vs}),
                           f'{name} [{sname}]: {vs[0][1]}',
                           {'cfg': cfg, 'schedule': sname, 'mode': 'fixed',
                            'all': [t for _, t in vs[:5]]})
            return
    if cfg['mp'] > 1:
        part.seen('nontrivial', name)
    part.seen('configs', name)


def explore_case(part, item):
    cfg, delivery, bound = item
    name = name_of(cfg) + f'/{delivery}' + \
        (f'/dev<={bound}' if bound is not None else '/exhaustive')
    viols = []
    try:
        res = DC.explore_cfg(dict(cfg, world=cfg['dp'] * cfg['mp']),
                             delivery, oracle_for(cfg), bound,
                             program=G.make_program(cfg))
    except Exception as e:  # noqa
        part.violation(f'harness:{type(e).__name__}', f'{name}: {e}',
                       {'cfg': cfg, 'mode': 'explore'})
        return
    DC.absorb(part, res, name, viols)
    part.seen('nontrivial', name)
    if viols:
        part.violation(finding_key(cfg, {k for k, _ in viols}) + ':explore',
                       f'{name}: {viols[0][1]}',
                       {'cfg': cfg, 'mode': 'explore', 'delivery': delivery,
                        'bound': bound})


def configs(thorough, seed):
    out = []
    decomps = [(1, 1), (2, 1), (1, 2), (2, 2), (1, 3)]
    if thorough:
        decomps += [(3, 2), (2, 3), (1, 6)]
    for (dp, mp), bias, kl, cap, (f, inv), gm in itertools.product(
            decomps, (True, False), (1e30, 1e-3, None), (0.0, 25.0),
            ((1, 1), (1, 2), (2, 2)), ('gpt2l', 'gpt3l')):
        if gm == 'gpt3l' and ((f, inv) == (1, 2) or (cap == 0.0 and bias)):
            continue
        kk = dict(damping=0.05, factor_decay=0.5, kl_clip=kl, lr=0.1,
                  allreduce_bucket_cap_mb=cap, factor_update_steps=f,
                  inv_update_steps=inv)
        c = {'dp': dp, 'mp': mp, 'bias': bias, 'batch': 2,
             'seed': seed, 'kfac': kk, 'loss_mult': 4.0,
             'gmodel': gm, 'history': [['train']] * 3}
        if (len(out) + seed) % 2:
            c['seq'] = 3   # (batch, seq, hidden) activations
        out.append(c)
    # damping that changes between inverse updates, and an AMP loss scale
    for (dp, mp), bias, extra in itertools.product(
            [(1, 1), (2, 1), (1, 2), (2, 2)], (True, False),
            ('damping', 'scale')):
        kk = dict(damping=0.05, factor_decay=0.5, kl_clip=1e30, lr=0.1,
                  allreduce_bucket_cap_mb=25.0, factor_update_steps=1,
                  inv_update_steps=1)
        c = {'dp': dp, 'mp': mp, 'bias': bias, 'batch': 2, 'seed': seed,
             'kfac': kk, 'loss_mult': 4.0, 'gmodel': 'gpt2l',
             'history': [['train']] * 4}
        if extra == 'damping':
            kk.update(damping=['cyc', [0.05, 0.2, 0.1]], inv_update_steps=2)
        else:
            c['scale'] = 8.0
        out.append(c)
    return out


def explorations(thorough, seed):
    def cfg(dp, mp, bias, kl, its):
        kk = dict(damping=0.05, factor_decay=0.5, kl_clip=kl, lr=0.1,
                  allreduce_bucket_cap_mb=25.0)
        return {'dp': dp, 'mp': mp, 'bias': bias, 'batch': 2, 'seed': seed,
                'kfac': kk, 'loss_mult': 4.0, 'history': [['train']] * its}

    out = [(cfg(1, 2, True, 1e30, 1), 'eager', None),
           (cfg(2, 1, True, 1e-3, 1), 'eager', None),
           (cfg(2, 2, True, 1e30, 2), 'eager', 1)]
    if thorough:
        out += [(cfg(1, 2, False, 1e30, 2), 'eager', None),
                (cfg(2, 1, True, 1e-3, 2), 'eager', None),
                (cfg(1, 2, True, 1e30, 1), 'free', None),
                (cfg(2, 2, True, 1e30, 1), 'eager', None),
                (cfg(1, 3, True, 1e30, 2), 'eager', 2)]
    return out


def any_case(part, item):
    kind, payload = item
    {'fixed': fixed_case, 'explore': explore_case}[kind](part, payload)


def main(run: core.Run):
    thorough = run.tier == 'thorough'
    cfgs = configs(thorough, run.seed)
    snames = tuple(simdist.FIXED_SCHEDULES) if thorough else \
        ('S0-lowest-eager', 'S3-lowest-lazy-poison')
    items = [('fixed', (c, snames)) for c in cfgs]
    exps = explorations(thorough, run.seed)
    items += [('explore', e) for e in exps]
    core.pmap(run, any_case, items, weight=lambda it: (
        2000 * it[1][0]['dp'] * it[1][0]['mp'] if it[0] == 'explore'
        else (it[1][0]['dp'] * it[1][0]['mp']) ** 2))
    run.c['evaluations'] = run.c.get('executions', 0)
    run.c['distinct_nontrivial'] = len(run.distinct.get('nontrivial', ()))
    run.notes['configurations'] = len(cfgs)
    run.notes['explorations'] = len(exps)
    run.rule = (
        '(data, model) decompositions {(1,1),(2,1),(1,2),(2,2),(1,3)} '
        '(thorough + (3,2),(2,3),(1,6)) x bias on/off x clipping inactive / '
        'active / None x bucketed or not x interval pairs, a column-parallel '
        'layer followed by a row-parallel layer, 3 steps; every rank\'s '
        'gradient shards compared with the shards of the gradient RefKFAC '
        'produces for the UNSHARDED layers on the data-parallel replicas '
        '(clipping included), factors on the inverse worker compared with '
        'the unsharded factors, replicas and replicated parameters compared '
        'across ranks; exhaustive interleavings for (1,2) and (2,1), '
        'deviation-bounded for (2,2); non-trivial = model-parallel degree '
        '> 1')
    run.sample(cfgs[len(cfgs) // 2])
    run.cap('the configuration sweep runs under fixed schedules; rank '
            'interleavings are exhaustive only in the listed explorations')
    run.assumptions += [
        'DeepSpeed topology/PipelineModule and Megatron Column/'
        'RowParallelLinear are re-implemented stand-ins (gptenv.py); with '
        'model degree 1 they reproduce the unsharded run',
        'compute_eigenvalue_outer_product=False (the GPT-NeoX default)']


def replay(run, data):
    d = data['detail']
    part = core.Part()
    if d.get('mode') == 'explore':
        explore_case(part, (d['cfg'], d['delivery'], d['bound']))
    else:
        fixed_case(part, (d['cfg'], (d['schedule'],)))
    run.merge(part.dump())
