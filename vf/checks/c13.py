"""C13 - memory and communication placement follow the KAISA strategy."""
from __future__ import annotations

import itertools

from vf import core
from vf import distcheck as DC
from vf import kfacref as R
from vf import kfacrun as K
from vf import simdist
from vf.checks.c06 import ref_grid


def name_of(cfg):
    k = cfg['kfac']
    return (f"{cfg['model']}/w{cfg['world']}/k={cfg['k']}/F="
            f"{k['factor_update_steps']}/I={k['inv_update_steps']}/cap="
            f"{k.get('allreduce_bucket_cap_mb', 25.0)}/sym="
            f"{k.get('symmetry_aware', False)}/{K.method_of(cfg)}/col="
            f"{k.get('colocate_factors', True)}/hook="
            f"{k.get('update_factors_in_hook', True)}")


def tri(n):
    return n * (n + 1) // 2


def expected_so_numels(method, na, ng, sym):
    """Element counts of the broadcasts of one layer on a refresh step."""
    if method == 'inverse':
        return sorted([tri(na) if sym else na * na,
                       tri(ng) if sym else ng * ng])
    if method == 'eigen_prediv':
        return sorted([na * na, ng * ng, ng * na])
    return sorted([na * na, na, ng * ng, ng])


stats_seen = {}


def check_world(cfg, w):
    v = []
    n, k = cfg['world'], cfg['k']
    kk = cfg['kfac']
    method = K.method_of(cfg)
    sym = kk.get('symmetry_aware', False)
    cols, rows = ref_grid(n, k)
    dims = R.factor_dims(R.build_model(cfg['model']))
    fus, ius = K.mk_hp(kk['factor_update_steps']), \
        K.mk_hp(kk['inv_update_steps'])
    # ---- memory -----------------------------------------------------
    holders = {nm: None for nm in dims}
    for r in range(n):
        for ev in w.results[r]:
            if 'mem_mid' in ev:
                mem, held = ev['mem_mid'], ev['held_mid']
                if held['batch'] > 0:
                    stats_seen['pending'] = True
                for key, rep in (
                        ('a_batch', mem['a_batch']),
                        ('g_batch', mem['g_batch']),
                        ('factors', mem['a_factors'] + mem['g_factors']),
                        ('second_order',
                         mem['a_inverses'] + mem['g_inverses'])):
                    if rep != held[key]:
                        v.append(('memory-report', f'rank{r}: memory_usage '
                                  f'queried between backward and step '
                                  f'reports {rep} bytes of {key}, tensors '
                                  f'held: {held[key]}'))
                if mem['total'] != sum(x for kx, x in mem.items()
                                       if kx != 'total'):
                    v.append(('memory-total', f'rank{r}: total '
                              f'{mem["total"]} (mid-iteration)'))
            if ev['op'][0] != 'mem':
                continue
            mem, held = ev['mem'], ev['held']
            pairs = [('factors', mem['a_factors'] + mem['g_factors']),
                     ('second_order', mem['a_inverses'] + mem['g_inverses']),
                     ('batch', mem['a_batch'] + mem['g_batch'])]
            for key, rep in pairs:
                if rep != held[key]:
                    v.append(('memory-report', f'rank{r}: memory_usage '
                              f'reports {rep} bytes of {key}, tensors held: '
                              f'{held[key]}'))
            if mem['total'] != sum(x for kx, x in mem.items()
                                   if kx != 'total'):
                v.append(('memory-total', f'rank{r}: total {mem["total"]}'))
            if held.get('other'):
                v.append(('memory-unreported', f'rank{r}: the layer objects '
                          f'hold {held["other"]} bytes in tensors that '
                          f'memory_usage() does not report '
                          f'({held["other_names"][:3]})'))
            for nm, b in held['per_layer_second_order'].items():
                isgw = ev['gw'][nm]
                if (b > 0) != isgw:
                    v.append(('holds-iff-grad-worker', f'rank{r} layer {nm}:'
                              f' holds {b} bytes of second-order data, '
                              f'is_grad_worker={isgw}'))
            for nm in dims:
                col = [c for c in cols if ev['inv'][nm]['A'] in c][0]
                if ev['gw'][nm] != (r in col):
                    v.append(('grad-worker-column', f'rank{r} layer {nm}: '
                              f'is_grad_worker={ev["gw"][nm]} but column of '
                              f'the inverse worker is {sorted(col)}'))
                holders[nm] = col
        if v:
            return v
    # ---- communication ---------------------------------------------
    for r in range(n):
        my_row = [x for x in rows if r in x][0]
        by_op = {}
        for e in w.trace[r]:
            if e['tag'] == ('ddp',):
                continue
            if e['tag'] and e['tag'][0] == 'ckpt':
                by_op.setdefault(('ckpt',), []).append(e)
                continue
            if not e['tag'] or e['tag'][0] != 'train':
                v.append(('comm-outside-step', f'rank{r}: {e["kind"]} on '
                          f'{e["ranks"]} during {e["tag"]}'))
                continue
            by_op.setdefault(e['tag'], []).append(e)
        # a load recomputes second-order data with the placement of a
        # refresh step: broadcasts inside worker columns only
        lo = by_op.get(('ckpt',), [])
        want_lo = []
        if k > 1 and any(e['op'][0] == 'ckpt' for e in w.results[r]):
            for nm, (na, ng, _) in dims.items():
                if r in holders[nm]:
                    want_lo += expected_so_numels(method, na, ng, sym)
        if sorted(e['numel'] for e in lo) != sorted(want_lo) or any(
                e['kind'] != 'broadcast' or frozenset(e['ranks']) not in cols
                for e in lo):
            v.append(('load-communication', f'rank{r}: load_state_dict '
                      f'issued {[(e["kind"], e["ranks"], e["numel"]) for e in lo]}'
                      f', expected broadcasts of {sorted(want_lo)} elements '
                      'inside its worker columns'))
        for ev in w.results[r]:
            if ev['op'][0] != 'train':
                continue
            s = ev['steps_before']
            tag = [t for t in by_op if len(t) > 2 and t[2] == s]
            es = by_op.get(tag[0], []) if tag else []
            F = fus(s) if callable(fus) else fus
            Iv = ius(s) if callable(ius) else ius
            ar = [e for e in es if e['kind'] == 'all_reduce']
            bc = [e for e in es if e['kind'] == 'broadcast']
            other = [e for e in es if e['kind'] not in ('all_reduce',
                                                        'broadcast')]
            if other:
                v.append(('comm-kind', f'rank{r} step {s}: {other[0]["kind"]}'))
            # factor allreduce: whole world, exactly once per factor
            want = 0
            if s % F == 0 and n > 1:
                want = sum((tri(na) + tri(ng)) if sym else
                           (na * na + ng * ng) for na, ng, _ in dims.values())
            got = sum(e['numel'] for e in ar)
            if any(len(e['ranks']) != n for e in ar):
                v.append(('allreduce-group', f'rank{r} step {s}: factor '
                          'allreduce on a group other than the world'))
            if got != want:
                v.append(('allreduce-volume', f'rank{r} step {s}: '
                          f'{got} elements allreduced, expected {want} '
                          f'(factor step={s % F == 0}, symmetric={sym})'))
            # broadcasts: receiver row -> gradients, worker column ->
            # second-order data (rows and columns never coincide for n > 1)
            grad_b, so_b = [], []
            for e in bc:
                fr = frozenset(e['ranks'])
                if fr == my_row and k < n:
                    grad_b.append(e)
                elif fr in cols and k > 1:
                    so_b.append(e)
                else:
                    v.append(('broadcast-group', f'rank{r} step {s}: '
                              f'broadcast on {e["ranks"]} which is neither '
                              'its receiver row nor a worker column'))
            want_grad = sorted(g for _, _, g in dims.values()) \
                if k < n else []
            if sorted(e['numel'] for e in grad_b) != want_grad:
                v.append(('grad-broadcast', f'rank{r} step {s}: gradient '
                          f'broadcasts {sorted(e["numel"] for e in grad_b)} '
                          f'expected {want_grad} (one per layer inside the '
                          'receiver group, none under COMM-OPT)'))
            want_so = []
            if s % Iv == 0 and k > 1:
                for nm, (na, ng, _) in dims.items():
                    if r in holders[nm]:
                        want_so += expected_so_numels(method, na, ng, sym)
            if sorted(e['numel'] for e in so_b) != sorted(want_so):
                v.append(('inverse-broadcast', f'rank{r} step {s}: '
                          f'second-order broadcasts '
                          f'{sorted(e["numel"] for e in so_b)} expected '
                          f'{sorted(want_so)} (refresh step={s % Iv == 0}, '
                          f'k={k})'))
            for e in so_b:
                if holders and not any(frozenset(e['ranks']) == holders[nm]
                                       for nm in dims):
                    v.append(('inverse-broadcast-group', f'rank{r} step {s}:'
                              f' second-order broadcast on {e["ranks"]}'))
            if v:
                return v
    return v


def case(part, item):
    cfg, snames = item
    name = name_of(cfg)
    for sname in snames:
        try:
            w, bad = DC.run_fixed(cfg, sname)
        except Exception as e:  # noqa
            part.violation(f'exception:{type(e).__name__}',
                           f'{name}: {e}', {'cfg': cfg, 'schedule': sname})
            return
        part.count('executions')
        part.count('transitions', w.stats['points'])
        part.count('states', w.stats['points'] + 1)
        stats_seen.clear()
        vs = bad or check_world(cfg, w)
        if stats_seen.get('pending'):
            part.seen('mid_iteration_query_with_pending_batches', name)
        if vs:
            kinds = '+'.join(sorted({k for k, _ in vs}))
            part.violation(f"{kinds}:{K.method_of(cfg)}:w{cfg['world']}",
                           f'{name} [{sname}]: {vs[0][1]}',
                           {'cfg': cfg, 'schedule': sname,
                            'all': [t for _, t in vs[:5]]})
            return
    part.seen('nontrivial', name)


def configs(thorough, seed):
    out = []
    methods = [('eigen', True), ('eigen', False), ('inverse', False)]
    worlds = [1, 2, 4] + ([6, 8] if thorough else [])
    fis = [(1, 1), (1, 2), (2, 2), (2, 1), (2, 3)]
    i = 0
    for world in worlds:
        for k in [d for d in range(1, world + 1) if world % d == 0]:
            for (f, inv), cap, sym, (m, pre), col, hook, model in \
                    itertools.product(fis, (0.0, 25.0, 5e-5), (False, True),
                                      methods, (True, False), (True, False),
                                      ('mlp3', 'conv')):
                if pre and not col:
                    continue
                if cap == 5e-5 and not (sym and (f, inv) in ((1, 1),
                                                              (2, 3))):
                    continue  # tiny cap: only where the volume is at stake
                i += 1
                if not thorough and world == 4 and (i + seed) % 2:
                    continue
                if world > 4 and (model == 'conv' or (i + seed) % 3):
                    continue
                kk = dict(damping=0.05, factor_decay=0.5, kl_clip=1e-3,
                          lr=0.1, compute_method=m,
                          compute_eigenvalue_outer_product=pre,
                          factor_update_steps=f, inv_update_steps=inv,
                          update_factors_in_hook=hook,
                          allreduce_bucket_cap_mb=cap, symmetry_aware=sym,
                          colocate_factors=col,
                          grad_worker_fraction=k / world)
                T, M, L = ['train'], ['mem'], ['ckpt', True, True]
                hist = [T, M, T, M, T, T, M] if i % 3 else \
                    [T, M, T, L, M, T, M]
                out.append({'model': model, 'dtype': 'f32', 'batch': 2,
                            'world': world, 'k': k, 'seed': seed, 'kfac': kk,
                            'record_factors': False, 'history': hist,
                            'mem_mid': not hook})
    return out


def main(run: core.Run):
    thorough = run.tier == 'thorough'
    cfgs = configs(thorough, run.seed)
    snames = ('S0-lowest-eager', 'S3-lowest-lazy-poison')
    core.pmap(run, case, [(c, snames) for c in cfgs],
              weight=lambda it: it[0]['world'] ** 2)
    run.c['evaluations'] = run.c.get('executions', 0)
    run.c['distinct_nontrivial'] = len(run.distinct.get('nontrivial', ()))
    run.notes['configurations'] = len(cfgs)
    run.rule = (
        'world size {1,2,4(,6,8)} x every gradient-worker count x interval '
        'pairs {(1,1),(1,2),(2,2),(2,1),(2,3)} x bucketed/unbucketed x '
        'symmetric/dense x 3 methods x colocation x hook/no-hook x 2 models, '
        'history train,mem,train,mem,train,train,mem (every third: with a '
        'save + load into fresh objects in the middle) under two schedules; '
        'in no-hook configurations memory is also queried between backward '
        'and step (batch statistics pending, per category); at '
        'every memory query: reported bytes == bytes of tensors found by an '
        'independent walk, second-order data held iff gradient worker, '
        'gradient workers form the grid column of the inverse worker; per '
        'step the collective trace (kind, group, element count) must be '
        'exactly: factor allreduces on the world group summing to the '
        'factor elements (n(n+1)/2 when symmetric) on factor-update steps '
        'only, method-specific second-order broadcasts inside worker '
        'columns on refresh steps only (none under MEM-OPT), one gradient '
        'broadcast per layer inside the receiver row (none under COMM-OPT), '
        'nothing in a world of one')
    run.sample(cfgs[len(cfgs) // 2])
    run.cap('two fixed schedules per configuration (the collective trace '
            'of a rank does not depend on the schedule)')
    run.assumptions += ['simdist stands in for gloo/NCCL']
    if not thorough:
        run.cap('quick runs half of the world-4 configurations per seed')


def replay(run, data):
    d = data['detail']
    part = core.Part()
    case(part, (d['cfg'], (d['schedule'],)))
    run.merge(part.dump())
