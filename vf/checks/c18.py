"""C18 - GPT-NeoX checkpoints gather and restore every layer factor."""
from __future__ import annotations

import itertools
import shutil
import tempfile

import torch

from vf import core, gptenv, simdist
from vf import distcheck as DC
from vf import gptrun as G
from vf.checks import c11


def name_of(cfg):
    return (f"{cfg.get('gmodel', 'gpt2l')}/dp{cfg['dp']}xmp{cfg['mp']}/save@{cfg['c']}/"
            f"{'dir' if cfg.get('dir') else 'mem'}/inverses="
            f"{cfg['compute']}/bias={cfg.get('bias', True)}/F="
            f"{cfg['kfac'].get('factor_update_steps', 1)}/I="
            f"{cfg['kfac'].get('inv_update_steps', 1)}")


def finding_key(cfg, kinds):
    where = '0' if cfg['c'] == 0 else 'T' if cfg['c'] == cfg['T'] else 'mid'
    return (f"{'+'.join(sorted(kinds))}:mp{'>1' if cfg['mp'] > 1 else '=1'}"
            f":c={where}:{'dir' if cfg.get('dir') else 'mem'}")


def check(cfg, w, stats=None):
    v = []
    n = w.n
    c = cfg['c']
    evs = [w.results[r][c] for r in range(n)]
    inv = evs[0]['inv_worker']
    fw = [e['factor_worker'] for e in evs]
    for r in range(n):
        if evs[r]['inv_worker'] != inv:
            v.append(('inv-worker-differs', f'rank{r}'))
    # (1) saved state == factors held by each layer's inverse worker
    for name, iw in inv.items():
        held = evs[iw]['factors_here'].get(name)
        if held is None:
            v.append(('harness', f'inverse worker {iw} holds no {name}'))
            continue
        for r in range(n):
            if cfg.get('dir'):
                files = evs[r].get('files', {})
                if sorted(files) != sorted(inv):
                    v.append(('files', f'rank{r} sees files {sorted(files)}, '
                              f'expected one per layer {sorted(inv)}'))
                    break
                st = files[name]
                if 'layers' in evs[r]['saved']:
                    v.append(('dir-mode-layers', 'state_dict contains '
                              'layers although a directory is configured'))
            else:
                st = evs[r]['saved'].get('layers', {}).get(name)
                if st is None and held['A'] is None and held['G'] is None:
                    continue  # nothing held yet, nothing to save
                if st is None:
                    v.append(('missing-layer', f'rank{r}: state has no '
                              f'entry for {name}'))
                    continue
            for k in 'AG':
                if held[k] is None:
                    if st[k] is not None:
                        v.append(('saved-factor', f'rank{r}: {name}.{k}'))
                    continue
                if st[k] is None or not torch.equal(st[k], held[k]):
                    v.append(('saved-factor', f'rank{r}: saved {name}.{k} '
                              f'differs from the factor held by inverse '
                              f'worker {iw}'))
        if v:
            return v
    # (2) restored on the ranks that gather and invert each layer
    for r in range(n):
        for name, iw in inv.items():
            al = evs[r]['after_load'][name]
            if fw[r][name] == r:
                held = evs[iw]['factors_here'][name]
                for k in 'AG':
                    if held[k] is None:
                        continue
                    if al[k] is None or not torch.equal(al[k], held[k]):
                        v.append(('restored-factor', f'rank{r} (gathers '
                                  f'{name}) does not hold the saved '
                                  f'{name}.{k} after load'))
                if cfg['compute'] and not al['has_so'] and c > 0:
                    v.append(('restored-inverses', f'rank{r}: second-order '
                              f'data of {name} not recomputed'))
        if evs[r]['steps_after'] != c:
            v.append(('restored-steps', f'rank{r}: steps '
                      f'{evs[r]["steps_after"]} != {c}'))
    if v:
        return v
    # (3) training resumes as in C09: against the unsharded reference
    orc = c11.oracle_for(cfg, stats)
    res = orc(w)
    if res and cfg['mp'] > 1 and c > 0:
        lost = [(r, name) for r in range(n) for name in inv
                if fw[r][name] != r and evs[r]['after_load'][name]['A']
                is None]
        if lost:
            return [('resume-after-partial-restore',
                     f'after load only the gathering ranks hold factors '
                     f'(e.g. rank{lost[0][0]} has none for {lost[0][1]}); '
                     f'replicated factors restart from the identity there '
                     f'and are averaged in: {res[0][1]}')]
    return [('resume-' + k, t) for k, t in res]


def case(part, item):
    cfg, snames = item
    name = name_of(cfg)
    for sname in snames:
        tmp = tempfile.mkdtemp(prefix='vf-c18-') if cfg.get('dir') else None
        try:
            c = dict(cfg)
            if tmp:
                c['ckpt_dir'] = tmp + '/factors'
            w = simdist.run_world(cfg['dp'] * cfg['mp'],
                                  G.make_program(c), sname)
            bad = DC.sim_bad(w)
            part.count('executions')
            part.count('transitions', w.stats['points'])
            part.count('states', w.stats['points'] + 1)
            vs = bad or check(c, w, part)
        except Exception as e:  # noqa
            vs = [('harness', f'{type(e).__name__}: {e}')]
        finally:
            if tmp:
                shutil.rmtree(tmp, ignore_errors=True)
        if vs:
            part.violation(finding_key(cfg, {k for k, _ in vs}),
                           f'{name} [{sname}]: {vs[0][1]}',
                           {'cfg': cfg, 'schedule': sname, 'mode': 'fixed',
                            'all': [t for _, t in vs[:5]]})
            return
    part.seen('nontrivial', name)


def explore_case(part, item):
    cfg, delivery, bound = item
    name = name_of(cfg) + f'/{delivery}' + \
        (f'/dev<={bound}' if bound is not None else '/exhaustive')
    viols = []

    def oracle(w):
        return check(cfg, w)

    try:
        res = DC.explore_cfg(dict(cfg, world=cfg['dp'] * cfg['mp']),
                             delivery, oracle, bound,
                             program=G.make_program(cfg))
    except Exception as e:  # noqa
        part.violation(f'harness:{type(e).__name__}', f'{name}: {e}',
                       {'cfg': cfg, 'mode': 'explore'})
        return
    DC.absorb(part, res, name, viols)
    part.seen('nontrivial', name)
    if viols:
        part.violation(finding_key(cfg, {k for k, _ in viols}) + ':explore',
                       f'{name}: {viols[0][1]}',
                       {'cfg': cfg, 'mode': 'explore', 'delivery': delivery,
                        'bound': bound})


def mk(dp, mp, c, T, dirmode, compute, seed, f=1, inv=1, bias=True,
       gm='gpt2l'):
    kk = dict(damping=0.05, factor_decay=0.5, kl_clip=1e30, lr=0.1,
              allreduce_bucket_cap_mb=25.0, factor_update_steps=f,
              inv_update_steps=inv)
    return {'dp': dp, 'mp': mp, 'bias': bias, 'batch': 2, 'seed': seed,
            'kfac': kk, 'loss_mult': 4.0, 'c': c, 'T': T, 'dir': dirmode,
            'gmodel': gm,
            'compute': compute,
            'history': [['train']] * c + [['ckpt', True, compute]] +
            [['train']] * (T - c)}


def configs(thorough, seed):
    out = []
    T = 5 if thorough else 3
    decomps = [(1, 1), (2, 1), (1, 2), (2, 2)] + (
        [(3, 1), (1, 3), (2, 3), (3, 2)] if thorough else [])
    for (dp, mp), c, dirmode, compute, (f, inv) in itertools.product(
            decomps, range(T + 1), (False, True), (True, False),
            ((1, 1), (1, 2), (2, 2))):
        if not compute and c < T and c % inv != 0:
            continue  # excluded by the documentation
        out.append(mk(dp, mp, c, T, dirmode, compute, seed, f, inv))
        if (f, inv) != (1, 2):
            out.append(mk(dp, mp, c, T, dirmode, compute, seed, f, inv,
                          bias=(c % 2 == 0), gm='gpt3l'))
    return out


def any_case(part, item):
    kind, payload = item
    {'fixed': case, 'explore': explore_case}[kind](part, payload)


def main(run: core.Run):
    thorough = run.tier == 'thorough'
    cfgs = configs(thorough, run.seed)
    snames = ('S0-lowest-eager', 'S3-lowest-lazy-poison')
    items = [('fixed', (c, snames)) for c in cfgs]
    exps = [(mk(2, 1, 1, 2, False, True, run.seed), 'eager', None)]
    if thorough:
        exps += [(mk(1, 2, 1, 2, False, True, run.seed), 'eager', None),
                 (mk(2, 2, 1, 2, False, True, run.seed), 'eager', 1)]
    items += [('explore', e) for e in exps]
    core.pmap(run, any_case, items, weight=lambda it: (
        3000 * it[1][0]['dp'] * it[1][0]['mp'] if it[0] == 'explore'
        else (it[1][0]['dp'] * it[1][0]['mp']) ** 2))
    run.c['evaluations'] = run.c.get('executions', 0)
    run.c['distinct_nontrivial'] = len(run.distinct.get('nontrivial', ()))
    run.notes['configurations'] = len(cfgs)
    run.rule = (
        '(data, model) in {(1,1),(2,1),(1,2),(2,2)} x EVERY step boundary c '
        'of a T-step run x {in-memory, directory} checkpointing x '
        'compute_inverses x interval pairs; at c all ranks call '
        'state_dict(), the harness barriers, fresh models + preconditioners '
        'load the state, training continues; saved layers (or files) must '
        'be bit-equal to the factors held by each layer\'s inverse worker on '
        'every rank, the gathering ranks must hold them (and second-order '
        'data) after load, the continuation is compared with the unsharded '
        'reference; simdist matching/stall oracle throughout; exhaustive '
        'interleavings of a (2,1) save+load history')
    run.cap('the configuration sweep runs under fixed schedules; rank '
            'interleavings are exhaustive only in the listed explorations')
    run.sample({k: v for k, v in cfgs[len(cfgs) // 2].items()
                if k != 'history'})
    run.assumptions += ['DeepSpeed/Megatron stand-ins (gptenv.py)',
                        'a barrier separates saving from loading (a '
                        'restart happens after the checkpoint completed)']


def replay(run, data):
    d = data['detail']
    part = core.Part()
    if d.get('mode') == 'explore':
        explore_case(part, (d['cfg'], d['delivery'], d['bound']))
    else:
        case(part, (d['cfg'], (d['schedule'],)))
    run.merge(part.dump())
