"""C18 - GPT-NeoX checkpoints gather and restore every layer factor."""
from __future__ import annotations

import itertools
import shutil
import tempfile

import torch

from vf import core, gptenv, simdist
from vf import distcheck as DC
from vf import gptrun as G
from vf.checks import c11


def name_of(cfg):
    return (f"{cfg.get('gmodel', 'gpt2l')}/pp{cfg.get('pp', 1)}xdp{cfg['dp']}xmp{cfg['mp']}/fdt={cfg['kfac'].get('factor_dtype')}/plain_stage={cfg.get('plain_stage')}/save@{cfg['c']}/"
            f"{'dir' if cfg.get('dir') else 'mem'}/inverses="
            f"{cfg['compute']}/bias={cfg.get('bias', True)}/F="
            f"{cfg['kfac'].get('factor_update_steps', 1)}/I="
            f"{cfg['kfac'].get('inv_update_steps', 1)}")


def finding_key(cfg, kinds):
    where = '0' if cfg['c'] == 0 else 'T' if cfg['c'] == cfg['T'] else 'mid'
    return (f"{'+'.join(sorted(kinds))}:mp{'>1' if cfg['mp'] > 1 else '=1'}"
            f":c={where}:{'dir' if cfg.get('dir') else 'mem'}")


def check(cfg, w, stats=None):
    v = []
    n = w.n
    c = cfg['c']
    evs = [w.results[r][c] for r in range(n)]
    inv = evs[0]['inv_worker']
    fw = [e['factor_worker'] for e in evs]
    for r in range(n):
        if evs[r]['inv_worker'] != inv:
            v.append(('inv-worker-differs', f'rank{r}'))
    # (1) saved state == factors held by each layer's inverse worker
    for name, iw in inv.items():
        held = evs[iw]['factors_here'].get(name)
        if held is None:
            v.append(('harness', f'inverse worker {iw} holds no {name}'))
            continue
        for r in range(n):
            if cfg.get('dir'):
                files = evs[r].get('files', {})
                if sorted(files) != sorted(inv):
                    v.append(('files', f'rank{r} sees files {sorted(files)}, '
                              f'expected one per layer {sorted(inv)}'))
                    break
                st = files[name]
                if 'layers' in evs[r]['saved']:
                    v.append(('dir-mode-layers', 'state_dict contains '
                              'layers although a directory is configured'))
            else:
                st = evs[r]['saved'].get('layers', {}).get(name)
                if st is None and held['A'] is None and held['G'] is None:
                    continue  # nothing held yet, nothing to save
                if st is None:
                    v.append(('missing-layer', f'rank{r}: state has no '
                              f'entry for {name}'))
                    continue
            for k in 'AG':
                if held[k] is None:
                    if st[k] is not None:
                        v.append(('saved-factor', f'rank{r}: {name}.{k}'))
                    continue
                if st[k] is None or not torch.equal(st[k], held[k]):
                    v.append(('saved-factor', f'rank{r}: saved {name}.{k} '
                              f'differs from the factor held by inverse '
                              f'worker {iw}'))
        if v:
            return v
    # (2) restored on the ranks that gather and invert each layer
    for r in range(n):
        for name, iw in inv.items():
            al = evs[r]['after_load'][name]
            if fw[r][name] == r:
                held = evs[iw]['factors_here'][name]
                for k in 'AG':
                    if held[k] is None:
                        continue
                    if al[k] is None or not torch.equal(al[k], held[k]):
                        v.append(('restored-factor', f'rank{r} (gathers '
                                  f'{name}) does not hold the saved '
                                  f'{name}.{k} after load'))
                if cfg['compute'] and not al['has_so'] and c > 0:
                    v.append(('restored-inverses', f'rank{r}: second-order '
                              f'data of {name} not recomputed'))
        if evs[r]['steps_after'] != c:
            v.append(('restored-steps', f'rank{r}: steps '
                      f'{evs[r]["steps_after"]} != {c}'))
    if v:
        return v
    # (3) training resumes as in C09
    if cfg['kfac'].get('factor_dtype'):
        # low/high precision factors: compared with the uninterrupted run
        # of the same configuration under the same schedule (both intervals
        # are 1 here, so everything is recomputed on the next step)
        un = cfg['_uninterrupted']
        for r in range(n):
            for t in range(c, cfg['T']):
                ev, eu = w.results[r][t + 1], un[r][t]
                for pn, g in ev['P'].items():
                    e = G.K.rel_err(g.to(torch.float64),
                                    eu['P'][pn].to(torch.float64))
                    if not e <= 1e-6:
                        v.append(('resume-differs', f'rank{r} step {t}: '
                                  f'{pn} differs from the uninterrupted run '
                                  f'by {e:.2e}'))
                        return v
        return v
    orc = c11.oracle_for(cfg, stats)
    res = orc(w)
    if res and cfg['mp'] > 1 and c > 0:
        lost = [(r, name) for r in range(n) for name in inv
                if fw[r][name] != r and evs[r]['after_load'][name]['A']
                is None]
        if lost:
            return [('resume-after-partial-restore',
                     f'after load only the gathering ranks hold factors '
                     f'(e.g. rank{lost[0][0]} has none for {lost[0][1]}); '
                     f'replicated factors restart from the identity there '
                     f'and are averaged in: {res[0][1]}')]
    return [('resume-' + k, t) for k, t in res]


def _strip(d, pre, own_only=True):
    out = {}
    for k, v in d.items():
        if pre and k.startswith(pre):
            out[k[len(pre):]] = v
        elif not pre and not k.startswith('p'):
            out[k] = v
        elif not own_only:
            out[k] = v
    return out


def stage_view(cfg, w, s):
    """The ranks of pipeline stage s seen as a pipe=1 world: layer names
    without the stage prefix, worker ranks relative to the stage."""
    import types

    m = cfg['dp'] * cfg['mp']
    pre = G.stage_prefix(s)
    off = s * m
    results = []
    for r in range(off, off + m):
        rec = []
        for ev in w.results[r]:
            e = dict(ev)
            for key in ('P', 'D', 'factors_here', 'after_load'):
                if key in e:
                    e[key] = _strip(e[key], pre)
            for key in ('inv_worker', 'factor_worker'):
                if key in e:
                    e[key] = {k: v - off for k, v in
                              _strip(e[key], pre).items()}
            if 'saved' in e and 'layers' in e['saved']:
                e['saved'] = dict(e['saved'],
                                  layers=_strip(e['saved']['layers'], pre))
            if isinstance(e.get('files'), dict):
                e['files'] = _strip(e['files'], pre)
            rec.append(e)
        results.append(rec)
    return types.SimpleNamespace(n=m, results=results,
                                 trace=w.trace[off:off + m])


def check_all_stages(cfg, w):
    """Every rank's saved state holds every layer of EVERY stage exactly as
    held by that layer's inverse worker."""
    v = []
    n, c = w.n, cfg['c']
    evs = [w.results[r][c] for r in range(n)]
    inv_all = {}
    for e in evs:
        inv_all.update(e['inv_worker'])
    for name, iw in sorted(inv_all.items()):
        held = evs[iw]['factors_here'].get(name)
        if held is None or held['A'] is None or held['G'] is None:
            continue
        for r in range(n):
            src = evs[r].get('files', {}) if cfg.get('dir') else \
                evs[r]['saved'].get('layers', {})
            st = src.get(name)
            if st is None:
                v.append(('missing-layer', f'rank{r}: state has no entry '
                          f'for {name} (held by rank {iw} of another or the '
                          'same pipeline stage)'))
                continue
            for k in 'AG':
                if st[k] is None or not torch.equal(st[k], held[k]):
                    v.append(('saved-factor', f'rank{r}: saved {name}.{k} '
                              f'differs from the factor held by inverse '
                              f'worker {iw}'))
        if v:
            return v
    return v


def check_world(cfg, w, stats=None):
    pp = cfg.get('pp', 1)
    if pp == 1:
        return check(cfg, w, stats)
    vs = check_all_stages(cfg, w)
    for s in range(pp):
        if vs:
            break
        if cfg.get('plain_stage') == s:
            continue  # nothing registered there; its saved state was checked
        vs = [(k, f'stage {s}: {t}') for k, t in
              check(cfg, stage_view(cfg, w, s), stats)]
    return vs


def case(part, item):
    cfg, snames = item
    name = name_of(cfg)
    for sname in snames:
        tmp = tempfile.mkdtemp(prefix='vf-c18-') if cfg.get('dir') else None
        try:
            c = dict(cfg)
            if tmp:
                c['ckpt_dir'] = tmp + '/factors'
            nranks = cfg['dp'] * cfg['mp'] * cfg.get('pp', 1)
            if cfg['kfac'].get('factor_dtype'):
                cu = dict(c, history=[['train']] * cfg['T'], ckpt_dir=None)
                wu = simdist.run_world(nranks, G.make_program(cu), sname)
                c['_uninterrupted'] = wu.results
            w = simdist.run_world(nranks, G.make_program(c), sname)
            bad = DC.sim_bad(w)
            part.count('executions')
            part.count('transitions', w.stats['points'])
            part.count('states', w.stats['points'] + 1)
            vs = bad or check_world(c, w, part)
        except Exception as e:  # noqa
            vs = [('harness', f'{type(e).__name__}: {e}')]
        finally:
            if tmp:
                shutil.rmtree(tmp, ignore_errors=True)
        if vs:
            part.violation(finding_key(cfg, {k for k, _ in vs}),
                           f'{name} [{sname}]: {vs[0][1]}',
                           {'cfg': cfg, 'schedule': sname, 'mode': 'fixed',
                            'all': [t for _, t in vs[:5]]})
            return
    part.seen('nontrivial', name)


def explore_case(part, item):
    cfg, delivery, bound = item
    name = name_of(cfg) + f'/{delivery}' + \
        (f'/dev<={bound}' if bound is not None else '/exhaustive')
    viols = []

    def oracle(w):
        return check(cfg, w)

    try:
        res = DC.explore_cfg(dict(cfg, world=cfg['dp'] * cfg['mp']),
                             delivery, oracle, bound,
                             program=G.make_program(cfg))
    except Exception as e:  # noqa
        part.violation(f'harness:{type(e).__name__}', f'{name}: {e}',
                       {'cfg': cfg, 'mode': 'explore'})
        return
    DC.absorb(part, res, name, viols)
    part.seen('nontrivial', name)
    if viols:
        part.violation(finding_key(cfg, {k for k, _ in viols}) + ':explore',
                       f'{name}: {viols[0][1]}',
                       {'cfg': cfg, 'mode': 'explore', 'delivery': delivery,
                        'bound': bound})


def mk(dp, mp, c, T, dirmode, compute, seed, f=1, inv=1, bias=True,
       gm='gpt2l', pp=1, fdt=None, plain=None):
    kk = dict(damping=0.05, factor_decay=0.5, kl_clip=1e30, lr=0.1,
              allreduce_bucket_cap_mb=25.0, factor_update_steps=f,
              inv_update_steps=inv)
    if fdt:
        kk['factor_dtype'] = fdt
    return {'dp': dp, 'mp': mp, 'pp': pp, 'bias': bias, 'batch': 2,
            'seed': seed, 'plain_stage': plain,
            'kfac': kk, 'loss_mult': 4.0, 'c': c, 'T': T, 'dir': dirmode,
            'gmodel': gm,
            'compute': compute,
            'history': [['train']] * c + [['ckpt', True, compute]] +
            [['train']] * (T - c)}


def configs(thorough, seed):
    out = []
    T = 5 if thorough else 3
    decomps = [(1, 1), (2, 1), (1, 2), (2, 2)] + (
        [(3, 1), (1, 3), (2, 3), (3, 2)] if thorough else [])
    for (dp, mp), c, dirmode, compute, (f, inv) in itertools.product(
            decomps, range(T + 1), (False, True), (True, False),
            ((1, 1), (1, 2), (2, 2))):
        if not compute and c < T and c % inv != 0:
            continue  # excluded by the documentation
        out.append(mk(dp, mp, c, T, dirmode, compute, seed, f, inv))
        if (f, inv) != (1, 2):
            out.append(mk(dp, mp, c, T, dirmode, compute, seed, f, inv,
                          bias=(c % 2 == 0), gm='gpt3l'))
    # factors kept in another dtype than float32 must be saved as held
    for (dp, mp), c, dirmode, fdt in itertools.product(
            [(2, 1), (1, 1)], (1, T), (False, True), ('f64', 'bf16')):
        out.append(mk(dp, mp, c, T, dirmode, True, seed, fdt=fdt))
    # pipeline stages: every rank's state holds the layers of all stages;
    # with 3 data-parallel ranks and 2 layers per stage the last rank of
    # each stage is inverse worker of nothing
    for (pp, dp, mp), c, dirmode in itertools.product(
            [(2, 3, 1), (2, 1, 2), (2, 2, 1)] + ([(3, 2, 1), (2, 2, 2)]
                                                 if thorough else []),
            (0, 1, T), (False, True)):
        out.append(mk(dp, mp, c, T, dirmode, True, seed, pp=pp))
    # a pipeline stage that registers no K-FAC layer still takes part in
    # saving and loading
    for plain, c, dirmode in itertools.product((0, 1), (1, T), (False, True)):
        out.append(mk(2, 1, c, T, dirmode, True, seed, pp=2, plain=plain))
    return out


def any_case(part, item):
    kind, payload = item
    {'fixed': case, 'explore': explore_case}[kind](part, payload)


def main(run: core.Run):
    thorough = run.tier == 'thorough'
    cfgs = configs(thorough, run.seed)
    snames = ('S0-lowest-eager', 'S3-lowest-lazy-poison')
    items = [('fixed', (c, snames)) for c in cfgs]
    exps = [(mk(2, 1, 1, 2, False, True, run.seed), 'eager', None)]
    if thorough:
        exps += [(mk(1, 2, 1, 2, False, True, run.seed), 'eager', None),
                 (mk(2, 2, 1, 2, False, True, run.seed), 'eager', 1)]
    items += [('explore', e) for e in exps]
    core.pmap(run, any_case, items, weight=lambda it: (
        3000 * it[1][0]['dp'] * it[1][0]['mp'] if it[0] == 'explore'
        else (it[1][0]['dp'] * it[1][0]['mp'] * it[1][0].get('pp', 1)) ** 2))
    run.c['evaluations'] = run.c.get('executions', 0)
    run.c['distinct_nontrivial'] = len(run.distinct.get('nontrivial', ()))
    run.notes['configurations'] = len(cfgs)
    run.rule = (
        '(data, model) in {(1,1),(2,1),(1,2),(2,2)} x EVERY step boundary c '
        'of a T-step run x {in-memory, directory} checkpointing x '
        'compute_inverses x interval pairs, plus float64 / bfloat16 factors '
        'and pipeline x data x model in {(2,3,1),(2,1,2),(2,2,1)} (each stage '
        'an independent replica under its own layer names; every rank must '
        'save the layers of all stages, each stage is then checked like a '
        'pipe=1 world); at c all ranks call '
        'state_dict(), the harness barriers, fresh models + preconditioners '
        'load the state, training continues; saved layers (or files) must '
        'be bit-equal to the factors held by each layer\'s inverse worker on '
        'every rank, the gathering ranks must hold them (and second-order '
        'data) after load, the continuation is compared with the unsharded '
        'reference; simdist matching/stall oracle throughout; exhaustive '
        'interleavings of a (2,1) save+load history')
    run.cap('the configuration sweep runs under fixed schedules; rank '
            'interleavings are exhaustive only in the listed explorations')
    run.sample({k: v for k, v in cfgs[len(cfgs) // 2].items()
                if k != 'history'})
    run.assumptions += ['DeepSpeed/Megatron stand-ins (gptenv.py)',
                        'a barrier separates saving from loading (a '
                        'restart happens after the checkpoint completed)']


def replay(run, data):
    d = data['detail']
    part = core.Part()
    if d.get('mode') == 'explore':
        explore_case(part, (d['cfg'], d['delivery'], d['bound']))
    else:
        case(part, (d['cfg'], (d['schedule'],)))
    run.merge(part.dump())
