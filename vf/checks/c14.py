"""C14 - triangular packing is lossless; bad shapes rejected before comm."""
from __future__ import annotations

import itertools

import torch
import torch.distributed as dist

from vf import core, explore, simdist
from vf.digest import digest as _dg

DT = {'f16': torch.float16, 'bf16': torch.bfloat16, 'f32': torch.float32,
      'f64': torch.float64}
IT = {'f16': torch.int16, 'bf16': torch.int16, 'f32': torch.int32,
      'f64': torch.int64}
LAYOUTS = ('contig', 'transposed', 'strided')


def sym_matrix(n, pat, dtype, seed):
    i = torch.arange(n).view(-1, 1).expand(n, n)
    j = torch.arange(n).view(1, -1).expand(n, n)
    lo, hi = torch.minimum(i, j), torch.maximum(i, j)
    if pat == 3:
        # exponent / sign revealing: extremes of the dtype's range
        fi = torch.finfo(dtype)
        cat = torch.tensor(
            [fi.max, -fi.max, fi.tiny, -fi.tiny, fi.smallest_normal * fi.eps,
             1 + fi.eps, -0.0, 0.0, fi.max / 3, fi.tiny * 3, -1.5, 2.0 ** -9],
            dtype=torch.float64).to(dtype)
        return cat[(lo * 5 + hi * 3 + seed) % len(cat)]
    if pat == 0:
        m = (lo + seed) % 251
    elif pat == 1:
        m = (hi + 3 * seed) % 251
    else:
        m = (lo * 7 + hi * 13 + seed) % 251
    return m.to(dtype)


def with_layout(x, layout):
    n = x.shape[0]
    if layout == 'contig':
        return x.contiguous()
    if layout == 'transposed':
        # same values (x symmetric) but column-major strides
        return x.t().contiguous().t()
    big = torch.full((2 * n + 1, 3 * n + 2), -1, dtype=x.dtype)
    v = big[1:2 * n + 1:2, 2:3 * n + 2:3]
    v.copy_(x)
    return v


def pure_case(part, item):
    n, dname, seed = item
    from kfac.distributed import fill_triu, get_triu

    dtype = DT[dname]
    for pat in range(4):
        x0 = sym_matrix(n, pat, dtype, seed)
        for layout in LAYOUTS:
            x = with_layout(x0, layout)
            assert torch.equal(x, x0)
            key = f'pack:n={n}:{dname}:{layout}:pat{pat}'
            part.count('evaluations')
            try:
                tri = get_triu(x)
                y = fill_triu(tuple(x.shape), tri)
            except Exception as e:  # noqa
                part.violation(f'pack-exception:{dname}:{layout}',
                               f'{key}: {type(e).__name__}: {e}')
                continue
            bad = None
            if tri.numel() != n * (n + 1) // 2 or tri.dim() != 1:
                bad = f'packed size {tuple(tri.shape)} != n(n+1)/2'
            elif y.dtype != x.dtype or tuple(y.shape) != (n, n):
                bad = f'round trip gives {y.dtype}{tuple(y.shape)}'
            elif not torch.equal(y.view(IT[dname]), x0.view(IT[dname])):
                d = (y.view(IT[dname]) != x0.view(IT[dname])
                     ).nonzero()[0].tolist()
                bad = (f'round trip differs first at {d}: '
                       f'{y[d[0], d[1]].item()} != {x0[d[0], d[1]].item()}')
            if bad:
                part.violation(f'pack:{dname}:{layout}', f'{key}: {bad}',
                               {'n': n, 'dtype': dname, 'layout': layout,
                                'pat': pat, 'seed': seed, 'kind': 'pure'})
    if n > 1:
        part.seen('nontrivial', (n, dname))


# ------------------------------------------------------------ distributed
def comm_data(rank, n, dtype, pat, seed):
    return (sym_matrix(n, pat, torch.float64, seed) % 29 + rank + 1).to(dtype)


def make_comm_program(cfg):
    ns, dname, world_n, cap, seed = (cfg['ns'], cfg['dtype'], cfg['world'],
                                     cfg['cap'], cfg['seed'])
    dtype = DT[dname]

    def program(rank, world):
        from kfac.distributed import Future, TorchDistributedCommunicator

        # a sub-group whose group-local ranks differ from the global ones
        sub = dist.new_group(list(range(1, world_n))) if world_n > 2 \
            else None
        groups = [None] + ([sub] if sub is not None and rank >= 1 else [])
        tdc = TorchDistributedCommunicator(bucket_cap_mb=(cap + 0.5) / 1e6)
        out = []
        world.set_digest(lambda: _dg(out, tdc))

        def w(x):
            return x.wait() if isinstance(x, Future) else x

        for n in ns:
            for gi, g in enumerate(groups):
                for layout in cfg['layouts']:
                    x = with_layout(comm_data(rank, n, dtype, n % 3, seed),
                                    layout)
                    for avg in (False, True):
                        a = w(tdc.allreduce(x.clone(), average=avg, group=g,
                                            symmetric=True))
                        b = w(tdc.allreduce(x.clone(), average=avg, group=g,
                                            symmetric=False))
                        out.append(('allreduce', n, gi, layout, avg, a, b))
                        fa = tdc.allreduce_bucketed(
                            x.clone(), average=avg, group=g, symmetric=True)
                        fb = tdc.allreduce_bucketed(
                            x.clone(), average=avg, group=g, symmetric=False)
                        tdc.flush_allreduce_buckets()
                        out.append(('bucketed', n, gi, layout, avg, w(fa),
                                    w(fb)))
                    members = list(range(world_n)) if g is None else \
                        list(range(1, world_n))
                    # two DIFFERENT same-shaped symmetric tensors in flight
                    # at once (nobody waits in between)
                    x2 = with_layout(comm_data(rank, n, dtype, (n + 1) % 3,
                                               seed), layout)
                    f1 = tdc.allreduce(x.clone(), group=g, symmetric=True)
                    f2 = tdc.allreduce(x2.clone(), group=g, symmetric=True)
                    d1 = tdc.allreduce(x.clone(), group=g, symmetric=False)
                    d2 = tdc.allreduce(x2.clone(), group=g, symmetric=False)
                    out.append(('allreduce', n, gi, layout, False, w(f1),
                                w(d1)))
                    out.append(('allreduceP', n, gi, layout, False, w(f2),
                                w(d2)))
                    src = members[-1]
                    z = torch.zeros_like(x).contiguous()
                    f1 = tdc.broadcast((x if rank == src else z).clone(),
                                       src=src, group=g, symmetric=True)
                    f2 = tdc.broadcast((x2 if rank == src else z).clone(),
                                       src=src, group=g, symmetric=True)
                    d2 = tdc.broadcast((x2 if rank == src else z).clone(),
                                       src=src, group=g, symmetric=False)
                    out.append(('broadcastP', n, gi, layout, src, w(f2),
                                w(d2)))
                    out.append(('broadcast', n, gi, layout, src, w(f1),
                                w(f1)))
                    for src in (members[0], members[-1]):
                        xs = x.clone() if rank == src else \
                            torch.zeros_like(x).contiguous()
                        a = w(tdc.broadcast(xs.clone(), src=src, group=g,
                                            symmetric=True))
                        b = w(tdc.broadcast(xs.clone(), src=src, group=g,
                                            symmetric=False))
                        out.append(('broadcast', n, gi, layout, src, a, b))
        return out

    return program


def comm_oracle(cfg):
    dtype = DT[cfg['dtype']]
    world_n, seed = cfg['world'], cfg['seed']

    def oracle(world):
        v = []
        for rank, out in enumerate(world.results):
            for kind, n, gi, layout, flag, a, b in out or []:
                members = list(range(world_n)) if gi == 0 else \
                    list(range(1, world_n))
                pat = (n + 1) % 3 if kind.endswith('P') else n % 3
                if kind.startswith('broadcast'):
                    exp = comm_data(flag, n, dtype, pat, seed)
                else:
                    exp = comm_data(members[0], n, dtype, pat, seed).clone()
                    for m in members[1:]:
                        exp = exp + comm_data(m, n, dtype, pat, seed)
                    if flag:
                        exp = (1 / len(members)) * exp
                for nm, t in (('symmetric', a), ('dense', b)):
                    if t.dtype != exp.dtype or t.shape != exp.shape:
                        v.append((f'{kind}-meta', f'rank{rank} {kind} n={n} '
                                  f'{nm}: {t.dtype}{tuple(t.shape)}'))
                    elif not torch.equal(t, exp):
                        v.append((f'{kind}-{nm}', f'rank{rank} {kind} n={n} '
                                  f'{layout} flag={flag} {nm} result '
                                  f'differs from the expected tensor'))
            # symmetric mode must have sent n(n+1)/2 elements (else the
            # comparison above is vacuous)
        return v

    return oracle


def outcome(world):
    return explore.digest([[(o[:5], o[5].tolist(), o[6].tolist())
                            for o in (out or [])] for out in world.results])


def comm_case(part, item):
    cfg, mode = item
    prog, orc = make_comm_program(cfg), comm_oracle(cfg)
    key = f"comm:{cfg['dtype']}:w{cfg['world']}:ns{cfg['ns']}:{mode}"
    viols = []
    if mode == 'fixed':
        for sname in ('S0-lowest-eager', 'S3-lowest-lazy-poison'):
            w = simdist.run_world(cfg['world'], prog, sname)
            part.count('executions')
            part.count('transitions', w.stats['points'])
            part.count('states', w.stats['points'] + 1)
            vs = list(w.violations) + [
                ('exception', f'rank{r}: {e[0]}')
                for r, e in enumerate(w.errors)
                if e and e[0] != 'SimViolation']
            vs = vs or orc(w)
            # packed sizes really used on the wire
            if not vs:
                for e in w.trace[0]:
                    if e['kind'] in ('all_reduce', 'broadcast'):
                        part.seen('wire_sizes', e['numel'])
            viols += [(k, f'[{sname}] {t}') for k, t in vs]
    else:
        res = explore.explore(cfg['world'], prog, delivery=mode, oracle=orc,
                              outcome=outcome, max_states=30000)
        for k in ('executions', 'states', 'transitions', 'terminals',
                  'branching_states', 'multi_history_vectors'):
            part.count(k, getattr(res, k))
        part.count('explorations')
        if res.capped:
            part.cap(f'max_states hit for {key}')
        if len(res.outcomes) > 1:
            viols.append(('outcomes', f'{len(res.outcomes)} distinct terminal'
                          ' outcomes over interleavings'))
        viols += [(k, f'{t} [schedule={s}]') for k, t, s in res.violations]
        part.sample({'exploration': key, **res.as_dict()}, limit=1)
    part.seen('nontrivial', key)
    if viols:
        part.violation(f"comm:{'+'.join(sorted({k for k, _ in viols}))}:"
                       f"{cfg['dtype']}", f'{key}: {viols[0][1]}',
                       {'cfg': cfg, 'mode': mode, 'kind': 'comm',
                        'all': [t for _, t in viols[:5]]})


# ----------------------------------------------------------- bad shapes
def bad_shapes(maxdim=3, maxext=3):
    out = []
    for d in range(0, maxdim + 1):
        for shp in itertools.product(range(1, maxext + 1), repeat=d):
            if d == 2 and shp[0] == shp[1]:
                continue
            out.append(tuple(shp))
    return out


def make_bad_program(shapes, world_n, pending=False):
    """pending: a valid symmetric tensor is already waiting in the
    allreduce bucket (other dtype, or filling the tiny cap) when the bad
    tensor is submitted; nothing may be sent by the rejected call."""
    def program(rank, world):
        from kfac.distributed import (NonSquareTensorError,
                                      TorchDistributedCommunicator)

        sub = dist.new_group([0, 1]) if world_n > 2 else None
        groups = [None] + ([sub] if sub is not None and rank < 2 else [])
        tdc = TorchDistributedCommunicator(
            bucket_cap_mb=16e-6 if pending else 1.0)
        out = []
        for si, shp in enumerate(shapes):
            for gi, g in enumerate(groups):
                x = torch.ones(shp)
                for name, fn in (
                    ('allreduce', lambda: tdc.allreduce(
                        x, group=g, symmetric=True)),
                    ('allreduce_bucketed', lambda: tdc.allreduce_bucketed(
                        x, group=g, symmetric=True)),
                    ('broadcast', lambda: tdc.broadcast(
                        x, src=0, group=g, symmetric=True)),
                ):
                    if pending:
                        world.tag[rank] = ('pending', shp, gi)
                        good = torch.ones(
                            (2, 2), dtype=(torch.float64, torch.float32)[
                                (si + gi) % 2])
                        tdc.allreduce_bucketed(good, group=g, symmetric=True)
                    world.tag[rank] = (name, shp, gi)
                    n0 = len(world.trace[rank])
                    try:
                        fn()
                        res = 'no-error'
                    except NonSquareTensorError:
                        res = 'ok'
                    except Exception as e:  # noqa
                        res = f'{type(e).__name__}: {e}'
                    sent = world.trace[rank][n0:]
                    if res == 'ok' and sent:
                        res = (f'rejected only after communication had been '
                               f'started ({sent[0]["kind"]}{sent[0]["sig"]})')
                    out.append((name, shp, gi, res))
            world.tag[rank] = ('flush', shp)
            tdc.flush_allreduce_buckets()
        return out

    return program


def bad_case(part, item):
    shapes, world_n = item[:2]
    pending = bool(item[2]) if len(item) > 2 else False
    w = simdist.run_world(world_n,
                          make_bad_program(shapes, world_n, pending),
                          'S0-lowest-eager')
    part.count('executions')
    part.count('transitions', w.stats['points'])
    part.count('states', w.stats['points'] + 1)
    for k, t in w.violations:
        part.violation(f'badshape:{k}', t, {'kind': 'bad', 'shapes': shapes,
                                            'world': world_n,
                                            'pending': pending})
    for r, e in enumerate(w.errors):
        if e and e[0] != 'SimViolation':
            part.violation('badshape:exception', f'rank{r}: {e[0]}',
                           {'kind': 'bad', 'shapes': shapes,
                            'world': world_n, 'pending': pending})
    for rank, out in enumerate(w.results):
        for name, shp, gi, res in out or []:
            part.count('evaluations')
            part.seen('nontrivial', ('bad', name, shp))
            if res != 'ok':
                part.violation(
                    f'badshape:{name}:dim{len(shp)}',
                    f'rank{rank}: {name}(symmetric=True) on shape {shp} '
                    f'-> {res} instead of NonSquareTensorError',
                    {'kind': 'bad', 'shapes': [shp], 'world': world_n,
                     'pending': pending})
        if w.trace[rank] and not pending:
            e = w.trace[rank][0]
            part.violation(
                f'badshape:communicated:{e["tag"][0] if e["tag"] else "?"}',
                f'rank{rank} communicated {e["kind"]}{e["sig"]} although '
                f'every submitted tensor had a bad shape (during '
                f'{e["tag"]})', {'kind': 'bad', 'shapes': shapes,
                                 'world': world_n, 'pending': pending})


def main(run: core.Run):
    thorough = run.tier == 'thorough'
    nmax = 512 if thorough else 96
    pure = [(n, d, run.seed) for n in range(1, nmax + 1) for d in DT]
    # large sizes around powers of two (size-dependent code paths)
    big = [127, 128, 129, 255, 256, 257, 511, 512, 513, 640, 1023, 1024,
           1025] + ([1536, 2047, 2048, 2049, 3000, 4096] if thorough else [])
    pure += [(n, d, run.seed) for n in big if n > nmax
             for d in (('f32', 'f64') if n > 1100 else DT)]
    core.pmap(run, pure_case, pure, weight=lambda it: it[0] ** 2 + 50)
    comm = []
    nmaxc = 12 if thorough else 7
    for dname in DT:
        for world_n in (2, 3):
            ns = list(range(1, nmaxc + 1))
            for chunk in (ns[:4], ns[4:8], ns[8:]):
                if chunk:
                    comm.append(({'ns': chunk, 'dtype': dname,
                                  'world': world_n, 'cap': 64,
                                  'seed': run.seed,
                                  'layouts': LAYOUTS}, 'fixed'))
    for dname in (('f32', 'bf16') if not thorough else tuple(DT)):
        for world_n in ((2,) if not thorough else (2, 3)):
            for delivery in ('eager', 'free'):
                comm.append(({'ns': [2] if delivery == 'free' else [2, 3],
                              'dtype': dname, 'world': world_n,
                              'cap': 64, 'seed': run.seed,
                              'layouts': ('strided',)}, delivery))
    core.pmap(run, comm_case, comm,
              weight=lambda it: (1 if it[1] == 'fixed' else 40))
    shapes = bad_shapes()
    bad = [(shapes[i:i + 8], wn, pend) for wn in (2, 3)
           for pend in (False, True) for i in range(0, len(shapes), 8)]
    core.pmap(run, bad_case, bad)
    run.c['distinct_nontrivial'] = len(run.distinct.get('nontrivial', ()))
    run.rule = (
        f'pure: every n in 1..{nmax} and {len(big)} sizes around powers of two up to {max(big)} x 4 floating dtypes x 3 layouts x 4 '
        'position- / exponent-revealing symmetric patterns (bitwise compare), fill_triu(get_triu(x)) '
        'bit-equal x; comm: symmetric vs dense allreduce / bucketed / '
        f'broadcast for n in 1..{nmaxc} in simulated worlds 2,3 (world and '
        'sub-group), fixed schedules + exhaustive interleavings of small '
        'programs; bad shapes: every shape with <=3 dims of extent <=3 that '
        'is not square 2-D must raise NonSquareTensorError with an empty '
        'collective trace, also when a valid tensor of another dtype / '
        'filling the (tiny) bucket cap is already pending in the allreduce '
        'bucket (no collective may start during the rejected call); non-trivial = n>1 pure cases, comm programs and '
        '(op, bad shape) pairs')
    run.sample({'pure': [1, 'f16', run.seed], 'layouts': LAYOUTS})
    run.sample({'bad_shapes': [list(s) for s in shapes[:6]]})
    run.notes['wire_sizes_seen'] = sorted(run.distinct.get('wire_sizes', ()))
    run.assumptions += ['values are small integers (exact in every dtype); '
                        'other contents are covered by the gather/scatter '
                        'being value-independent',
                        'simdist stands in for gloo/NCCL']


def replay(run, data):
    d = data['detail']
    part = core.Part()
    if d['kind'] == 'pure':
        pure_case(part, (d['n'], d['dtype'], d['seed']))
    elif d['kind'] == 'comm':
        comm_case(part, (d['cfg'], d['mode']))
    else:
        bad_case(part, ([tuple(s) for s in d['shapes']], d['world'],
                        d.get('pending', False)))
    run.merge(part.dump())
