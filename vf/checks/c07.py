"""C07 - KL clipping bounds the update and only rescales it."""
from __future__ import annotations

import copy
import itertools
import math

import torch

from vf import core, simdist
from vf import kfacrun as K

F64 = torch.float64
HUGE = 1e30


def name_of(cfg):
    k = cfg['kfac']
    return (f"{cfg['model']}/w{cfg['world']}/gwf="
            f"{k.get('grad_worker_fraction', 'COMM_OPT')}/"
            f"{K.method_of(cfg)}/kl={k['kl_clip']}/lr={k['lr']}/zero="
            f"{bool(cfg.get('zero_loss'))}/scale={cfg.get('scale')}/hist="
            f"{''.join(o[0][0] + (str(o[1]) if len(o) > 1 else '') for o in cfg['history'])}")


def run_cfg(cfg, sname):
    n = cfg['world']
    if n == 1:
        rec, _ = K.run_single(cfg)
        return [rec], None
    w = simdist.run_world(n, K.make_program(cfg), sname)
    bad = list(w.violations) + [('exception', f'rank{r}: {e[0]}')
                                for r, e in enumerate(w.errors)
                                if e and e[0] != 'SimViolation']
    return w.results, (bad[0] if bad else None)


def case(part, item):
    cfg, sname = item
    name = name_of(cfg)
    det = {'cfg': cfg, 'schedule': sname}
    k = cfg['kfac']
    if cfg.get('f16_total'):
        # regime wanted: every layer's term stays well below the float16
        # range (5.0e4), their total is well above it (>= 7.0e4).  Model and
        # loss multiplier are chosen per data seed from a probe run (terms
        # scale with the square of the multiplier; identity factors).
        ok = False
        for model in cfg['f16_total']:
            probe = copy.deepcopy(cfg)
            probe.update(model=model, loss_mult=20.0, history=[['train']])
            probe['kfac']['kl_clip'] = None
            try:
                rp, _ = run_cfg(probe, sname)
            except Exception:  # noqa
                continue
            ev0 = rp[0][0]
            per = {}
            for pn, V in ev0['P'].items():
                ln = pn.rsplit('.', 1)[0]
                per[ln] = per.get(ln, 0.0) + (
                    V.to(F64) * ev0['D'][pn].to(F64)).sum().item()
            terms = [abs(v) * k['lr'] ** 2 for v in per.values()]
            if max(terms) > 0 and sum(terms) / max(terms) >= 1.4:
                cfg = dict(cfg, model=model,
                           loss_mult=20.0 * math.sqrt(5.0e4 / max(terms)))
                ok = True
                break
        if not ok:
            part.count('f16_total_family_out_of_regime')
            return
        name = name_of(cfg) + f"/mult={cfg['loss_mult']:.1f}"
        det = {'cfg': cfg, 'schedule': sname}
    try:
        cfgA = copy.deepcopy(cfg)
        # V comes from a run without any scaling code (kl_clip=None); the
        # 1e30 variant is used where None itself is under test
        cfgA['kfac']['kl_clip'] = HUGE if k['kl_clip'] is None else None
        recsA, badA = run_cfg(cfgA, sname)
        if badA:
            part.violation(f'sim:{badA[0]}', f'{name}: {badA[1]}', det)
            return
    except Exception as e:  # noqa
        part.violation(f'exception-unclipped:{type(e).__name__}',
                       f'{name}: {e}', det)
        return
    if cfg.get('nu_target'):
        # boundary inputs: kl_clip chosen so that the stated formula gives
        # exactly nu_target (just below / above 1) on the first step
        ev0 = [e for e in recsA[0] if e['op'][0] == 'train'][0]
        lr0 = k['lr']
        s0 = sum((V.to(F64) * ev0['D'][pn].to(F64)).sum().item() * lr0 ** 2
                 for pn, V in ev0['P'].items()
                 if V is not None and _registered(cfg, pn))
        cfg = copy.deepcopy(cfg)
        cfg['kfac']['kl_clip'] = cfg['nu_target'] ** 2 * abs(s0)
        k = cfg['kfac']
        det = {'cfg': cfg, 'schedule': sname}
        name = name_of(cfg) + f"/nu_target={cfg['nu_target']}"
    try:
        recsB, badB = run_cfg(cfg, sname)
    except Exception as e:  # noqa
        kind = 'none-rejected' if k['kl_clip'] is None else 'exception'
        part.violation(f'{kind}:{type(e).__name__}',
                       f'{name}: kl_clip={k["kl_clip"]!r}: '
                       f'{type(e).__name__}: {e}', det)
        return
    if badB:
        part.violation(f'sim:{badB[0]}', f'{name}: {badB[1]}', det)
        return
    part.count('executions', 2)
    clock = K.ExtClock()
    kl_f, lr_f = K.mk_hp(k['kl_clip'], clock), K.mk_hp(k['lr'], clock)
    tol_rel = {'f32': 2e-5, 'f64': 2e-5, 'f16': 4e-3, 'bf16': 3e-2}[
        cfg.get('dtype', 'f32')]
    active = False
    for rank, (recA, recB) in enumerate(zip(recsA, recsB)):
        step = 0
        for evA, evB in zip(recA, recB):
            if evA['op'][0] != 'train':
                continue
            part.count('evaluations')
            clock.i = step
            kl = kl_f(step) if callable(kl_f) else kl_f
            lr = lr_f(step) if callable(lr_f) else lr_f
            s = 0.0
            for pn, V in evA['P'].items():
                D = evA['D'][pn]
                if V is None or D is None:
                    continue
                if _registered(cfg, pn):
                    s += (V.to(F64) * D.to(F64)).sum().item() * lr ** 2
            if kl is None or s == 0.0:
                nu = 1.0
            else:
                nu = min(1.0, math.sqrt(kl / abs(s)))
            if nu < 1.0:
                active = True
                if s < 0:
                    part.seen('negative_sum', name)
            if kl is not None and not nu * nu * abs(s) <= kl * (1 + 1e-9):
                part.violation('bound', f'{name}: harness arithmetic', det)
            for pn, V in evA['P'].items():
                if V is None or not _registered(cfg, pn):
                    continue
                got = evB['P'][pn].to(F64)
                exp = nu * V.to(F64)
                err = K.rel_err(got, exp)
                part.maxstat('scaled_err', err)
                if kl is None and not torch.equal(evB['P'][pn], V):
                    part.violation(
                        'none-scaled', f'{name} rank{rank} step {step}: '
                        f'{pn} changed although kl_clip=None', det)
                    return
                if not err <= tol_rel:
                    part.violation(
                        f"scale:{'zero' if s == 0.0 else 'clip'}",
                        f'{name} [{sname}] rank{rank} step {step}: {pn} is '
                        f'not nu*V with nu={nu:.6g} (rel. err {err:.2e}); '
                        f'sum<V,D>lr^2={s:.4g} kl={kl}', det)
                    return
            step += 1
    if active:
        part.seen('nontrivial', name)
    part.seen('configs', name)


def _registered(cfg, pn):
    # LayerNorm parameters of the 'mixed' model are not registered
    if cfg['model'] == 'mixed' and pn.startswith('1.'):
        return False
    return True


def configs(thorough, seed):
    out = []
    methods = [('eigen', True), ('eigen', False), ('inverse', False)]
    kls = [1e-6, 1e-3, 1e3, ['cyc', [1e-6, 1e3, 1e-3]], None]
    lrs = [0.0, 0.1, 1.0, ['cyc', [0.1, 1.0, 0.0]]]
    models = ['lin1', 'mlp2', 'mlp3', 'mixed', 'nbfirst', 'gated'] + (
        ['conv'] if thorough else [])
    for model, (m, pre), kl, lr, zero in itertools.product(
            models, methods, kls, lrs, (False, True)):
        if zero and (model != 'mlp3' or lr == 0.0):
            continue
        k = dict(damping=0.05, factor_decay=0.5, kl_clip=kl, lr=lr,
                 compute_method=m, compute_eigenvalue_outer_product=pre)
        cfg = {'model': model, 'dtype': 'f32', 'batch': 2, 'world': 1,
               'seed': seed, 'kfac': k, 'sgd_lr': 0.0, 'loss_mult': 5.0,
               'history': [['train']] * 3}
        if zero:
            cfg['zero_loss'] = True
        out.append((cfg, 'single'))
    # hyper-parameters that track external state (e.g. the optimizer's lr
    # changed by an lr scheduler between steps; the harness reads the
    # properties after every step, as a logging loop would)
    for model, (m, pre), kl, lr in itertools.product(
            ['mlp2', 'nbfirst'], methods,
            [1e-3, ['ext', [1e-3, 1e-5, 1e-2]]],
            [['ext', [0.1, 1.0, 0.3]], ['ext', [1.0, 0.2, 0.2]]]):
        k = dict(damping=0.05, factor_decay=0.5, kl_clip=kl, lr=lr,
                 compute_method=m, compute_eigenvalue_outer_product=pre)
        out.append(({'model': model, 'dtype': 'f32', 'batch': 2, 'world': 1,
                     'seed': seed, 'kfac': k, 'sgd_lr': 0.0,
                     'loss_mult': 5.0, 'history': [['train']] * 3},
                    'single'))
    # low-precision parameters with large inner products (the unscaled sum
    # exceeds the float16 range while lr^2 * sum is ordinary)
    for dt, (m, pre), mult in itertools.product(
            ['f16', 'bf16'], methods, [45.0, 60.0]):
        # identity factors (decay 1) kept in float32: V ~ D, so that
        # sum <V,D> ~ 1e5 > 65504 while every single product stays small
        k = dict(damping=0.05, factor_decay=1.0, kl_clip=1e-3, lr=0.01,
                 factor_dtype='f32', compute_method=m,
                 compute_eigenvalue_outer_product=pre)
        out.append(({'model': 'wide', 'dtype': dt, 'batch': 2, 'world': 1,
                     'seed': seed, 'kfac': k, 'sgd_lr': 0.0,
                     'loss_mult': mult, 'history': [['train']] * 2},
                    'single'))
    # clip scales just below and just above 1
    for model, (m, pre), nt in itertools.product(
            ['mlp2', 'nbfirst', 'conv'], methods,
            [0.9, 0.98, 0.992, 0.999, 0.9999, 1.0001, 1.01]):
        k = dict(damping=0.05, factor_decay=0.5, kl_clip=1.0, lr=0.1,
                 compute_method=m, compute_eigenvalue_outer_product=pre)
        out.append(({'model': model, 'dtype': 'f32', 'batch': 2, 'world': 1,
                     'seed': seed, 'kfac': k, 'sgd_lr': 0.0, 'loss_mult': 5.0,
                     'nu_target': nt, 'history': [['train']] * 2}, 'single'))
    # a negative inner product (negative definite factor loaded by the user,
    # inverse method): the stated |sum| decides
    for model, (m, pre), kl, c in itertools.product(
            ['lin1', 'mlp2'], methods, [1e-6, 1e-3], [0.5, 2.0]):
        k = dict(damping=0.05, factor_decay=0.5, kl_clip=kl, lr=0.1,
                 compute_method=m, compute_eigenvalue_outer_product=pre,
                 factor_update_steps=10, inv_update_steps=1)
        out.append(({'model': model, 'dtype': 'f32', 'batch': 2, 'world': 1,
                     'seed': seed, 'kfac': k, 'sgd_lr': 0.0, 'loss_mult': 5.0,
                     'history': [['train'], ['setneg', c], ['train'],
                                 ['train']]}, 'single'))
    # AMP: the gradients handed to step() carry the loss scale
    for model, (m, pre), kl, sc in itertools.product(
            ['mlp2', 'conv'], methods, [1e-3, 1e-1],
            [8.0, ['cyc', [8.0, 2.0, 32.0]]]):
        k = dict(damping=0.05, factor_decay=0.5, kl_clip=kl, lr=0.1,
                 compute_method=m, compute_eigenvalue_outer_product=pre)
        out.append(({'model': model, 'dtype': 'f32', 'batch': 2, 'world': 1,
                     'seed': seed, 'kfac': k, 'sgd_lr': 0.0, 'loss_mult': 5.0,
                     'scale': sc, 'history': [['train']] * 3}, 'single'))
    # float16: every layer's term is below 65504, their total is not
    for (m, pre) in methods:
        k = dict(damping=0.05, factor_decay=1.0, kl_clip=1e-3, lr=1.0,
                 factor_dtype='f32', compute_method=m,
                 compute_eigenvalue_outer_product=pre)
        out.append(({'model': 'wide', 'dtype': 'f16', 'batch': 2, 'world': 1,
                     'seed': seed, 'kfac': k, 'sgd_lr': 0.0,
                     'loss_mult': 38.0, 'history': [['train']] * 1,
                     'f16_total': ['wide', 'mlp3', 'nbfirst', 'gated',
                                   'mlp2']},
                    'single'))
    strategies = {2: ['COMM_OPT', 'MEM_OPT'],
                  4: ['COMM_OPT', 'MEM_OPT', 'HYBRID_OPT']}
    for world in (2, 4):
        for strat, (m, pre), kl, lr in itertools.product(
                strategies[world], methods,
                [1e-3, ['cyc', [1e-6, 1e3, 1e-3]], None], [0.1, 1.0]):
            if world == 4 and not thorough and (m, pre) == ('eigen', False):
                continue
            k = dict(damping=0.05, factor_decay=0.5, kl_clip=kl, lr=lr,
                     compute_method=m, compute_eigenvalue_outer_product=pre,
                     grad_worker_fraction=strat)
            cfg = {'model': ('mlp3', 'nbfirst')[len(out) % 2],
                   'dtype': 'f32', 'batch': 2,
                   'world': world, 'seed': seed, 'kfac': k, 'sgd_lr': 0.0,
                   'loss_mult': 5.0, 'history': [['train']] * 2}
            for sname in ('S0-lowest-eager', 'S3-lowest-lazy-poison'):
                out.append((cfg, sname))
    return out


def gpt_case(part, cfg):
    """GPT-NeoX: one clip scale shared by every layer and every rank also
    under model parallelism (oracle and stand-ins of C11)."""
    from vf.checks import c11

    c11.fixed_case(part, (cfg, ('S0-lowest-eager',)))


def any_case(part, item):
    if item[0] == 'gpt':
        gpt_case(part, item[1])
    else:
        case(part, item)


def main(run: core.Run):
    thorough = run.tier == 'thorough'
    items = configs(thorough, run.seed)
    for (dp, mp), bias, kl in itertools.product(
            [(2, 1), (1, 2), (2, 2)], (True, False), (1e-3, 1e-1)):
        kk = dict(damping=0.05, factor_decay=0.5, kl_clip=kl, lr=0.1,
                  allreduce_bucket_cap_mb=25.0)
        items.append(('gpt', {'dp': dp, 'mp': mp, 'bias': bias, 'batch': 2,
                              'seed': run.seed, 'kfac': kk, 'loss_mult': 4.0,
                              'gmodel': 'gpt2l',
                              'history': [['train']] * 2}))
    core.pmap(run, any_case, items,
              weight=lambda it: 30 if it[0] == 'gpt' else
              it[0]['world'] ** 2 * len(it[0]['history']))
    run.c['states'] = run.c.get('evaluations', 0)
    run.c['transitions'] = run.c.get('evaluations', 0)
    run.c['distinct_nontrivial'] = len(run.distinct.get('nontrivial', ()))
    run.notes['configurations'] = len(items)
    run.rule = (
        'every configuration in {1-3 layer models incl. one with '
        'unregistered parameters} x {3 methods} x kl_clip {1e-6, 1e-3, 1e3, '
        'step-dependent callable, None} x lr {0, 0.1, 1, callable} x '
        '{ordinary, all-zero gradients, one gated-off layer with an exactly '
        'zero gradient}, boundary inputs whose clip scale is 0.9..1.01, a '
        'negative inner product, AMP loss scales, float16/bfloat16 with '
        'large sums, and simulated worlds 2/4 under all '
        'strategies; each is executed twice on identical states (model '
        'updates disabled): with clipping disabled (kl_clip=None, resp. 1e30 '
        'where None is under test) to obtain V and '
        'with the value under test; the result must be nu*V on every layer, '
        'step and rank with nu from the stated formula; non-trivial = '
        'configurations in which clipping was active (nu<1)')
    run.sample(items[len(items) // 3][0])
    run.sample(items[-1][1])
    run.assumptions.append('GPT-NeoX runs use the stand-ins and oracle of '
                           'C11 (gptenv.py)')


def replay(run, data):
    d = data['detail']
    part = core.Part()
    if 'dp' in d['cfg']:
        gpt_case(part, d['cfg'])
    else:
        case(part, (d['cfg'], d['schedule']))
    run.merge(part.dump())
