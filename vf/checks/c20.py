"""C20 - tracing is transparent and its statistics exact."""
from __future__ import annotations

import itertools

from vf import core, simdist


class Clock:
    """Stands in for the `time` module inside kfac.tracing."""

    def __init__(self):
        self.now = 1000.0

    def time(self):
        return self.now


class Boom(Exception):
    pass


def build():
    """Three traced functions (two share a __name__) + a raising one."""
    import kfac.tracing as tr

    clock = Clock()
    tr.time = clock
    log = []

    fns = {}

    def mk(name, tag):
        def fn(dur, *args, **kwargs):
            log.append((tag, args, kwargs))
            clock.now += dur
            if kwargs.get('nest'):
                # re-entrancy under the same __name__: call another traced
                # function (f3 shares the name 'beta' with f2), then go on
                inner, idur, post = kwargs['nest']
                fns[inner](idur, 'inner')
                clock.now += post
            if kwargs.get('boom'):
                raise kwargs['boom']
            return kwargs.get('ret', (tag, args))
        fn.__name__ = name
        return tr.trace()(fn)

    fns.update({'f1': mk('alpha', 'f1'), 'f2': mk('beta', 'f2'),
                'f3': mk('beta', 'f3')})
    return tr, clock, log, fns


NAME = {'f1': 'alpha', 'f2': 'beta', 'f3': 'beta'}
OPS = [('call', 'f1', 0.25), ('call', 'f1', 1.0), ('call', 'f2', 0.5),
       ('call', 'f3', 2.0), ('raise', 'f1', 0.125), ('raise', 'f3', 4.0),
       ('clear',), ('nest', 'f2', 0.5)]
QUERIES = [(avg, mh) for avg in (True, False) for mh in (None, 1, 2, 3)]


def run_history(part, hist):
    tr, clock, log, fns = build()
    tr.clear_trace()
    ref = {}
    det = {'history': [list(o) for o in hist]}
    for i, op in enumerate(hist):
        part.count('transitions')
        if op[0] == 'clear':
            tr.clear_trace()
            ref = {}
        else:
            _, f, dur = op
            sentinel = object()
            # keyword names that collide with the wrapper's own parameters
            args, kwargs = (i, 'x'), {'ret': sentinel, 'k': i, 'sync': True,
                                      'func': 'user-value', 'average': 0}
            n0 = len(log)
            if op[0] == 'nest':
                kwargs['nest'] = ('f3', 0.25, 1.0)
            if op[0] == 'raise':
                exc = Boom(i)
                kwargs['boom'] = exc
                try:
                    fns[f](dur, *args, **kwargs)
                    part.violation('exception-swallowed', f'history {hist}: '
                                   f'op {i} did not raise', det)
                    return
                except Boom as e:
                    if e is not exc:
                        part.violation('exception-identity', f'{hist}', det)
                        return
                # a call that raised did not complete: the samples are
                # exactly those of completed calls, so the reference records
                # nothing (the queries below compare)
            else:
                try:
                    out = fns[f](dur, *args, **kwargs)
                except Exception as e:  # noqa
                    part.violation(f'call-raised:{type(e).__name__}',
                                   f'history {hist}: op {i}: the traced '
                                   f'function raised {e!r} although the '
                                   'undecorated one returns', det)
                    return
                if out is not sentinel:
                    part.violation('return-value', f'history {hist}: op {i} '
                                   f'returned {out!r}', det)
                    return
                if op[0] == 'nest':
                    # inner call completes first, then the outer one
                    ref.setdefault(NAME['f3'], []).append(0.25)
                    ref.setdefault(NAME[f], []).append(dur + 0.25 + 1.0)
                else:
                    ref.setdefault(NAME[f], []).append(dur)
            nlog = 2 if op[0] == 'nest' else 1
            if len(log) != n0 + nlog or log[n0] != (f, args, kwargs):
                part.violation('arguments', f'history {hist}: op {i} called '
                               f'the function {len(log) - n0} times with '
                               f'{log[n0:]}', det)
                return
        # queries do not change state: evaluate all of them in every state
        for avg, mh in QUERIES:
            part.count('evaluations')
            try:
                got = tr.get_trace(average=avg, max_history=mh)
            except Exception as e:  # noqa
                part.violation(f'query-exception:{type(e).__name__}',
                               f'history {hist[:i + 1]} get_trace(average='
                               f'{avg}, max_history={mh}): {e}', det)
                return
            exp = {}
            for name, ts in ref.items():
                w = ts if mh is None else ts[-mh:]
                exp[name] = sum(w) / len(w) if avg else sum(w)
            if got != exp:
                part.violation(
                    f"stats:{'mean' if avg else 'sum'}:mh={mh}",
                    f'history {hist[:i + 1]} get_trace(average={avg}, '
                    f'max_history={mh}) = {got} expected {exp}', det)
                return
    return ref


def prefix_case(part, item):
    prefix, depth = item
    seen = set()
    for L in range(0, depth - len(prefix) + 1):
        for tail in itertools.product(OPS, repeat=L):
            hist = tuple(prefix) + tail
            ref = run_history(part, hist)
            if ref is None:
                return
            k = repr(sorted(ref.items()))
            if k not in seen:
                seen.add(k)
                part.count('states')
            if sum(len(v) for v in ref.values()) >= 2:
                part.seen('nontrivial', hist)


def sync_case(part, item):
    """sync=True in a simulated world of 2: barriers around the call."""
    import torch.distributed as dist  # noqa

    simdist.install()

    def prog(rank, world):
        import kfac.tracing as tr

        @tr.trace(sync=True)
        def work(x):
            return x * 2

        return [work(rank + 1), work(rank + 3)]

    import kfac.tracing as tr

    tr.clear_trace()
    w = simdist.run_world(2, prog, item)
    part.count('evaluations')
    part.count('transitions', w.stats['points'])
    bad = list(w.violations) + [(('exception'), e[0]) for e in w.errors if e]
    if not bad:
        for r in range(2):
            if w.results[r] != [(r + 1) * 2, (r + 3) * 2]:
                bad.append(('sync-return', f'rank{r} got {w.results[r]}'))
            kinds = [e['kind'] for e in w.trace[r]]
            if kinds != ['barrier'] * 4:
                bad.append(('sync-barriers', f'rank{r} issued {kinds}'))
        if len(tr._func_traces.get('work', [])) != 4:
            bad.append(('sync-samples', f'{tr._func_traces}'))
    tr.clear_trace()
    for k, t in bad:
        part.violation(f'sync:{k}', f'[{item}] {t}', {'sync': item})
    part.seen('nontrivial', ('sync', item))


def long_case(part, n):
    """One long history: n completed calls under one name (plus a second
    function); every sample must stay in the record until clear_trace."""
    tr, clock, log, fns = build()
    tr.clear_trace()
    durs = []
    for i in range(n):
        d = (1 + i % 7) / 8.0          # dyadic: sums are exact
        fns['f1'](d)
        durs.append(d)
        if i % 997 == 0:
            fns['f2'](0.5)
        part.count('transitions')
    det = {'long': n}
    for avg in (True, False):
        for mh in (None, 1, 1000, 1024, 1025, 4096, 4097, 65536, 65537,
                   n - 1, n, n + 1):
            if mh is not None and mh <= 0:
                continue
            part.count('evaluations')
            got = tr.get_trace(average=avg, max_history=mh).get('alpha')
            w = durs if mh is None else durs[-mh:]
            exp = sum(w) / len(w) if avg else sum(w)
            if got != exp:
                part.violation(
                    f"stats:{'mean' if avg else 'sum'}:long",
                    f'after {n} completed calls get_trace(average={avg}, '
                    f'max_history={mh}) = {got} expected {exp}', det)
                return
    part.seen('nontrivial', ('long', n))


def main(run: core.Run):
    thorough = run.tier == 'thorough'
    depth = 7 if thorough else 6
    items = [((a, b, c), depth) for a in OPS for b in OPS for c in OPS] \
        if thorough else [((a, b), depth) for a in OPS for b in OPS]
    core.pmap(run, prefix_case, items, chunk=1)
    core.pmap(run, sync_case, list(simdist.FIXED_SCHEDULES), procs=1)
    core.pmap(run, long_case, [1500, 5000] + ([70000, 300000] if thorough
                                              else []), chunk=1)
    run.c['distinct_nontrivial'] = len(run.distinct.get('nontrivial', ()))
    run.rule = (
        f'every history of length <= {depth} over the 8-operation alphabet '
        '{completed calls of 3 traced functions (two sharing a __name__), a '
        'nested call of one inside the other under the same name, '
        'with dyadic durations, calls that raise, clear_trace}; after every '
        'operation all 8 get_trace(average, max_history in {None,1,2,3}) '
        'queries are compared with a list/dict reference under an injected '
        'clock (exact equality); one sync=True program in a simulated world '
        'of 2 under 4 schedules; long histories (1500 and 5000 calls; thorough '
        'up to 300000) with windows around 1024/4096/65536; non-trivial = histories with >=2 recorded '
        'samples')
    run.sample({'history': [list(o) for o in (OPS[0], OPS[3], OPS[4],
                                              OPS[2], OPS[6])]})
    run.assumptions.append('max_history=0 is outside the alphabet (mean of '
                           'zero samples undefined); kfac.tracing.time is '
                           'replaced by a virtual clock')


def replay(run, data):
    d = data['detail']
    part = core.Part()
    if 'sync' in d:
        sync_case(part, d['sync'])
    elif 'long' in d:
        long_case(part, d['long'])
    else:
        run_history(part, tuple(tuple(o) for o in d['history']))
    run.merge(part.dump())
