"""C19 - LambdaParamScheduler and exp_decay_factor_averaging."""
from __future__ import annotations

import itertools

from vf import core

PARAMS = ['factor_update_steps', 'inv_update_steps', 'damping',
          'factor_decay', 'kl_clip', 'lr']
INIT = {'factor_update_steps': 4, 'inv_update_steps': 8, 'damping': 0.01,
        'factor_decay': 0.9, 'kl_clip': 0.002, 'lr': 0.1}
# a second set of constants that are int-valued (valid values: the
# truncation must depend on the parameter, not on the value's type)
INIT_INT = {'factor_update_steps': 3, 'inv_update_steps': 5, 'damping': 2,
            'factor_decay': 1, 'kl_clip': 1, 'lr': 1}
INITS = {'float': INIT, 'int': INIT_INT}
INTS = ('factor_update_steps', 'inv_update_steps')


def lam(pi, seed):
    """Distinct per parameter, strictly step dependent, non-integer so that
    int() truncation (vs round) of the intervals is observable."""
    def f(step):
        return 0.55 + 0.3 * ((step + pi + seed) % 5) + 0.01 * pi

    def milestone(step):
        # exactly 1.0 on every other step (shifted per parameter), a
        # non-integer factor otherwise
        return 1.0 if (step + pi) % 2 == 0 else 0.6 + 0.25 * pi
    return milestone if seed >= 1000 else f


def mk_precond(callable_params=(), init='float'):
    from kfac.base_preconditioner import BaseKFACPreconditioner
    from kfac.distributed import TorchDistributedCommunicator

    kw = dict(INITS[init])
    for p in callable_params:
        v = INIT[p]
        kw[p] = (lambda s, v=v: v)
    return BaseKFACPreconditioner({}, assignment=None,
                                  tdc=TorchDistributedCommunicator(), **kw)


OPS = ['step', 'step0', 'step3', 'step7', 'adv']


def apply_ref(ref, op, subset, lams):
    if op == 'adv':
        ref['steps'] += 1
        return
    k = ref['steps'] if op == 'step' else int(op[4:])
    for pi, p in enumerate(PARAMS):
        if p in subset:
            f = lams[pi](k)
            if p in INTS:
                ref[p] = int(ref[p] * f)
            else:
                ref[p] = ref[p] * f


def subset_case(part, item):
    subset, depth, seed = item[:3]
    init = item[3] if len(item) > 3 else 'float'
    from kfac.scheduler import LambdaParamScheduler

    lams = [lam(pi, seed) for pi in range(len(PARAMS))]
    kw = {f'{p}_lambda': lams[PARAMS.index(p)] for p in subset}
    seen = set()
    frontier = [()]
    while frontier:
        nxt = []
        for hist in frontier:
            for op, reads in itertools.product(OPS, (False, True)):
                # reads: the caller also reads every property after every
                # operation (a logging loop), not only at the end
                h = hist + (op,)
                pre = mk_precond(init=init)
                sch = LambdaParamScheduler(pre, **kw)
                ref = dict(INITS[init], steps=0)
                ok = True
                for i, o in enumerate(h):
                    if o == 'adv':
                        if pre.factor_update_steps == 0 or \
                                pre.inv_update_steps == 0:
                            ok = False  # a step would divide by zero
                            break
                        pre.step()
                    elif o == 'step':
                        sch.step()
                    else:
                        sch.step(int(o[4:]))
                    apply_ref(ref, o, subset, lams)
                    if reads:
                        for p in PARAMS:
                            getattr(pre, p)
                if not ok:
                    continue
                part.count('evaluations')
                part.count('transitions')
                got = {p: getattr(pre, p) for p in PARAMS}
                got['steps'] = pre.steps
                for p in list(PARAMS) + ['steps']:
                    a, b = got[p], ref[p]
                    if type(a) is not type(b) or a != b:
                        kind = ('unscheduled-changed' if p not in subset
                                and p != 'steps' else 'value')
                        part.violation(
                            f'{kind}:{p}',
                            f'subset={sorted(subset)} init={init} history={h}'
                            f' reads-between={reads}: {p}={a!r} expected {b!r}',
                            {'kind': 'sched', 'subset': sorted(subset),
                             'depth': len(h), 'seed': seed, 'init': init})
                        return
                k = tuple(sorted(got.items()))
                if k not in seen and not reads:
                    seen.add(k)
                    part.count('states')
                    if len(h) < depth:
                        nxt.append(h)
        frontier = nxt
    if subset:
        part.seen('nontrivial', tuple(sorted(subset)))


def ctor_case(part, item):
    cparam, subset = item
    from kfac.scheduler import LambdaParamScheduler

    part.count('evaluations')
    pre = mk_precond([cparam] if cparam else [])
    kw = {f'{p}_lambda': (lambda s: 1.0) for p in subset}
    try:
        LambdaParamScheduler(pre, **kw)
        raised = None
    except ValueError:
        raised = 'ValueError'
    except Exception as e:  # noqa
        raised = type(e).__name__
    exp = 'ValueError' if cparam in subset else None
    if raised != exp:
        part.violation(f'ctor:{cparam}', f'preconditioner with callable '
                       f'{cparam}, scheduler for {sorted(subset)}: raised '
                       f'{raised}, expected {exp}',
                       {'kind': 'ctor', 'cparam': cparam,
                        'subset': sorted(subset)})
    part.seen('nontrivial', ('ctor', cparam, tuple(sorted(subset))))


def decay_case(part, item):
    cap, lo, hi = item
    from kfac.hyperparams import exp_decay_factor_averaging

    if cap <= 0:
        part.count('evaluations')
        try:
            exp_decay_factor_averaging(cap)
            part.violation('decay:cap<=0', f'cap={cap} accepted',
                           {'kind': 'decay', 'cap': cap})
        except ValueError:
            pass
        return
    f = exp_decay_factor_averaging(cap)
    prev = None
    for k in range(lo, hi):
        part.count('evaluations')
        if k < 0:
            try:
                f(k)
                part.violation('decay:negative', f'step {k} accepted',
                               {'kind': 'decay', 'cap': cap})
            except ValueError:
                pass
            continue
        v = f(k)
        exp = min(1 - 1 / max(k, 1), cap)
        if v != exp or not isinstance(v, (int, float)):
            part.violation('decay:value', f'cap={cap} k={k}: {v!r} expected '
                           f'{exp!r}', {'kind': 'decay', 'cap': cap, 'k': k})
            return
        if not 0 <= v <= cap or (prev is not None and v < prev):
            part.violation('decay:range', f'cap={cap} k={k}: {v} (prev '
                           f'{prev})', {'kind': 'decay', 'cap': cap, 'k': k})
            return
        prev = v
    # the schedule is a function of the step alone: the SAME object queried
    # with decreasing and with interleaved steps (roll-back, one schedule
    # shared by two preconditioners)
    ks = [k for k in range(max(lo, 0), hi)][::max(1, (hi - lo) // 400)]
    order = ks[::-1] + [k for pair in zip(ks[::-1], ks) for k in pair]
    for k in order:
        part.count('evaluations')
        v = f(k)
        exp = min(1 - 1 / max(k, 1), cap)
        if v != exp:
            part.violation('decay:history-dependent', f'cap={cap}: f({k}) = '
                           f'{v!r} after larger steps had been queried, '
                           f'expected {exp!r}',
                           {'kind': 'decay', 'cap': cap, 'k': k})
            return
    part.seen('nontrivial', ('decay', cap, lo))


def main(run: core.Run):
    thorough = run.tier == 'thorough'
    depth = 8 if thorough else 6
    subsets = [frozenset(c) for r in range(len(PARAMS) + 1)
               for c in itertools.combinations(PARAMS, r)]
    core.pmap(run, subset_case,
              [(s, depth, run.seed, 'float') for s in subsets] +
              [(s, min(depth, 6 if thorough else 4), run.seed, 'int')
               for s in subsets] +
              [(s, min(depth, 6 if thorough else 4), 1000 + run.seed, 'float')
               for s in subsets if len(s) >= 2],
              chunk=1)
    core.pmap(run, ctor_case, [(cp, s) for cp in [None] + PARAMS
                               for s in subsets], chunk=64)
    kmax = 10 ** 6 if thorough else 10 ** 4
    dec = []
    for cap in (1e-9, 0.3, 0.5, 0.6, 0.7, 0.95, 0.97, 0.999, 1, 5, 0, -1.0):
        for lo in range(-3, kmax, 50000):
            dec.append((cap, lo, min(kmax + 1, lo + 50000)))
    core.pmap(run, decay_case, dec, chunk=1)
    run.c['distinct_nontrivial'] = len(run.distinct.get('nontrivial', ()))
    run.rule = (
        f'history BFS to depth {depth} over {{step(), step(0), step(3), '
        'step(7), advance the preconditioner step}} for all 64 subsets of '
        'scheduled parameters with distinct strictly step-dependent '
        'non-integer factor functions (and a milestone family that returns exactly 1.0 on alternating steps), for float-valued and int-valued '
        'initial constants, each history once with the properties read only at the end and once read after every operation, in lock-step with a dictionary '
        'reference (exact float equality; states deduplicated by '
        'hyper-parameter tuple); constructor: 7 x 64 (callable parameter, '
        f'subset) pairs; exp_decay_factor_averaging for every k in -3..{kmax}'
        ' x 12 caps (incl. non-integer 1/(1-cap)), ascending, then descending and interleaved on the same schedule object; non-trivial = non-empty subsets, ctor pairs, decay '
        'ranges')
    run.sample({'subset': ['damping', 'inv_update_steps'],
                'history': ['step', 'adv', 'step3', 'step']})
    run.sample({'ctor': ['lr', ['lr', 'damping']]})
    run.assumptions.append('factor functions from one parametrised family; '
                           'histories longer than the depth bound are not '
                           'explored')


def replay(run, data):
    d = data['detail']
    part = core.Part()
    if d['kind'] == 'sched':
        subset_case(part, (frozenset(d['subset']), d['depth'], d['seed'],
                           d.get('init', 'float')))
    elif d['kind'] == 'ctor':
        ctor_case(part, (d['cparam'], frozenset(d['subset'])))
    else:
        decay_case(part, (d['cap'], -3, 200))
    run.merge(part.dump())
