"""C12 - GPT-NeoX assignment is consistent across the 3-D topology."""
from __future__ import annotations

import itertools

from vf import core, gptenv, simdist
from vf.checks.c17 import greedy_consistent


def coords(P, D, M):
    """rank -> (pipe, data, model), row-major over [pipe, data, model]."""
    return {(p * D + d) * M + m: (p, d, m)
            for p in range(P) for d in range(D) for m in range(M)}


def small_works():
    per = [{'A': a, 'G': g} for a in (0, 1, 2) for g in (0, 1, 2)]
    for nl in (1, 2, 3):
        for combo in itertools.product(per, repeat=nl):
            yield {f'l{i}': dict(c) for i, c in enumerate(combo)}


CATALOGUE = [
    {f'l{i}': {'A': 1.0, 'G': 1.0} for i in range(7)},
    {f'b{i}': {'A': float(i % 3), 'G': float((i * 2) % 3)} for i in range(9)},
    {'zz': {'A': 8.0, 'G': 1.0}, 'aa': {'A': 8.0, 'G': 1.0},
     'mm': {'A': 2.0, 'G': 7.0}, 'kk': {'A': 0.0, 'G': 0.0}},
    {'only': {'A': 3.0, 'G': 4.0}},
    # large loads that differ by one unit (not representable in float32)
    {**{f'h{i}': {'A': 2.0 ** 24 + i, 'G': float(i % 2)} for i in range(10)},
     't0': {'A': 1.0, 'G': 0.0}, 't1': {'A': 0.0, 'G': 1.0}},
    # cubic costs of realistic layer widths
    {**{f'c{i}': {'A': float(n) ** 3, 'G': float(n + 1) ** 3}
        for i, n in enumerate((6144, 6145, 6144, 24576, 6146, 1024, 6144))},
     'tail': {'A': 7.0, 'G': 0.0}},
]


def topo_case(part, item):
    P, D, M, works = item
    gptenv.install()
    simdist.install()
    from kfac.gpt_neox.assignment import GPTNeoXAssignment

    n = P * D * M
    co = coords(P, D, M)
    topo = gptenv.PipeModelDataParallelTopology(num_pp=P, num_mp=M, num_dp=D)
    key0 = f'topology=({P},{D},{M})'
    # harness sanity: stand-in numbering == arithmetic reference
    for r, (p, d, m) in co.items():
        c = topo.get_coord(r)
        assert (c.pipe, c.data, c.model) == (p, d, m)
    for wi, work in works:
        w = simdist.World(n, lambda r, w_: None)
        insts = {}
        det = {'P': P, 'D': D, 'M': M, 'work': work}
        ok = True
        for r in range(n):
            with w.as_rank(r):
                try:
                    insts[r] = GPTNeoXAssignment(
                        work, local_rank=r, topology=topo,
                        data_parallel_group=('dp', co[r][0], co[r][2]),
                        model_parallel_group=('mp', co[r][0], co[r][1]))
                except simdist.SimViolation as e:
                    part.violation(
                        'new_group:' + _topo_class(P, D, M),
                        f'{key0} rank {r}: {e}', det)
                    ok = False
                    break
                except Exception as e:  # noqa
                    part.violation(f'exception:{type(e).__name__}',
                                   f'{key0} rank {r} work={work}: {e}', det)
                    ok = False
                    break
        part.count('evaluations', n)
        if not ok:
            continue
        ref = w.newgroup_calls[0]
        for r in range(1, n):
            if w.newgroup_calls[r] != ref:
                part.violation(
                    'new_group:' + _topo_class(P, D, M),
                    f'{key0}: rank 0 created groups {ref} but rank {r} '
                    f'created {w.newgroup_calls[r]}', det)
                ok = False
                break
        if not ok:
            continue

        def bad(kind, text):
            part.violation(f'{kind}:{_topo_class(P, D, M)}',
                           f'{key0} work#{wi}: {text}', det)

        for p in range(P):
            stage = sorted(r for r in co if co[r][0] == p)
            a0 = insts[stage[0]]
            inv = {l: {f: a0.inv_worker(l, f) for f in a0.get_factors(l)}
                   for l in a0.get_layers()}
            if set(inv) != set(work) or any(set(inv[l]) != set(work[l])
                                            for l in work):
                bad('layers', f'stage {p}: layers/factors {inv}')
                break
            for l in work:
                if len(set(inv[l].values())) != 1 or \
                        next(iter(inv[l].values())) not in stage:
                    bad('inv-worker', f'stage {p} layer {l}: inverse '
                        f'workers {inv[l]} (stage ranks {stage})')
                    ok = False
            if not ok:
                break
            if not greedy_consistent(work, [stage], True, inv):
                bad('not-greedy', f'stage {p}: {inv} is not a least-loaded '
                    f'greedy assignment over ranks {stage}')
                break
            for r in stage:
                a = insts[r]
                _, d, m = co[r]
                if not a.broadcast_gradients() or a.broadcast_inverses():
                    bad('flags', f'rank {r}')
                    ok = False
                if a.grad_receiver_group('x') != ('dp', p, m):
                    bad('receiver-group', f'rank {r}: '
                        f'{a.grad_receiver_group("x")}')
                    ok = False
                for l in work:
                    mine = {f: a.inv_worker(l, f) for f in a.get_factors(l)}
                    if mine != inv[l]:
                        bad('inv-differs', f'rank {r} layer {l}: {mine} vs '
                            f'{inv[l]} on rank {stage[0]}')
                        ok = False
                        continue
                    iw = next(iter(inv[l].values()))
                    _, di, mi = co[iw]
                    # factor worker: own model-parallel group (same pipe,
                    # data) and inverse worker's data-parallel group (same
                    # pipe, model as the inverse worker)
                    fw = a.factor_worker(l, 'A')
                    if fw not in co or co[fw] != (p, d, mi):
                        bad('factor-worker', f'rank {r} layer {l}: factor '
                            f'worker {fw}, inverse worker {iw}')
                        ok = False
                    src = a.src_grad_worker(l)
                    if src not in co or co[src] != (p, di, m):
                        bad('src-grad-worker', f'rank {r} {co[r]} layer {l}:'
                            f' source {src} {co.get(src)}, inverse worker '
                            f'{iw} {co[iw]}')
                        ok = False
                    gw = a.is_grad_worker(l)
                    if gw != (d == di):
                        bad('grad-worker', f'rank {r} layer {l}: '
                            f'is_grad_worker={gw}, inverse worker {iw} '
                            f'{co[iw]}')
                        ok = False
                if not ok:
                    break
            if not ok:
                break
        if ok and n > 1 and len(work) > 1:
            part.seen('nontrivial', (P, D, M, wi))


def _topo_class(P, D, M):
    return f"pipe{'>1' if P > 1 else '=1'}:data{'>1' if D > 1 else '=1'}" \
           f":model{'>1' if M > 1 else '=1'}"


def main(run: core.Run):
    thorough = run.tier == 'thorough'
    mx = 5 if thorough else 4
    small = list(enumerate(small_works()))
    cat = [(1000 + i, w) for i, w in enumerate(CATALOGUE)]
    items = []
    for P, D, M in itertools.product(range(1, mx + 1), repeat=3):
        n = P * D * M
        ws = cat + (small if n <= 12 else small[::7])
        for i in range(0, len(ws), 120):
            items.append((P, D, M, ws[i:i + 120]))
    core.pmap(run, topo_case, items,
              weight=lambda it: it[0] * it[1] * it[2] * len(it[3]))
    run.c['states'] = run.c.get('evaluations', 0)
    run.c['transitions'] = run.c.get('evaluations', 0)
    run.c['distinct_nontrivial'] = len(run.distinct.get('nontrivial', ()))
    run.rule = (
        f'every (pipe, data, model) in {{1..{mx}}}^3 x every local rank x '
        'every cost dictionary with <=3 layers over costs {0,1,2} (all of '
        'them for worlds <= 12, every 7th above) plus a tie-heavy and large-cost (2^24+i, n^3) '
        'catalogue; one real GPTNeoXAssignment per rank in a simulated '
        'world that records new_group; checked against coordinate '
        'arithmetic (rank = (pipe*D+data)*M+model) and a brute-force '
        'greedy-consistency oracle; evaluations = assignment instances')
    run.sample({'topology': [2, 2, 2], 'work': CATALOGUE[2]})
    run.assumptions.append('DeepSpeed topology is a re-implemented stand-in '
                           '(checked against the arithmetic numbering)')


def replay(run, data):
    d = data['detail']
    part = core.Part()
    topo_case(part, (d['P'], d['D'], d['M'], [(0, d['work'])]))
    run.merge(part.dump())
