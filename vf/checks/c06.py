"""C06 - KAISA assignment well-formed and identical on every rank."""
from __future__ import annotations

import itertools

import torch

from vf import core, simdist


def divisors(n):
    return [k for k in range(1, n + 1) if n % k == 0]


def ref_grid(world, k):
    """Columns (gradient-worker groups, size k) and rows (receiver groups,
    size world/k) of the k x (world/k) grid, ranks ascending row-major."""
    ncol = world // k
    cols = [frozenset(range(c, world, ncol)) for c in range(ncol)]
    rows = [frozenset(range(r * ncol, (r + 1) * ncol)) for r in range(k)]
    return cols, rows


def cost_dicts_small():
    per = [{'A': a, 'G': g} for a in (0, 1, 2) for g in (0, 1, 2)]
    for nl in (1, 2, 3):
        for combo in itertools.product(per, repeat=nl):
            yield {f'layer{i}': dict(c) for i, c in enumerate(combo)}


CATALOGUE = [
    {'only': {'A': 5.0, 'G': 3.0}},
    {f'l{i}': {'A': 1.0, 'G': 1.0} for i in range(6)},          # all ties
    {f'l{i}': {'A': 0.0, 'G': 0.0} for i in range(5)},          # all zero
    {f'l{i:02d}': {'A': float((i * 7) % 11) ** 3,
                   'G': float((i * 5) % 7) ** 3} for i in range(40)},
    {'big': {'A': 1e9, 'G': 1.0}, 'small': {'A': 1e-3, 'G': 2.0},
     'mid': {'A': 10.0, 'G': 10.0}},
]


def check_config(part, world, k, colocate, work, frac, tag):
    from kfac.assignment import KAISAAssignment

    key = f'world={world} k={k} colocate={colocate} {tag}'
    det = {'world': world, 'k': k, 'colocate': colocate, 'work': work,
           'tag': tag}

    def bad(kind, text):
        part.violation(f'{kind}:{tag}', f'{text}: {key}', det)

    insts, calls = [], []
    for r in range(world):
        rec = []

        def group_func(ranks, rec=rec):
            rec.append(tuple(ranks))
            return tuple(sorted(ranks))

        try:
            a = KAISAAssignment(work, local_rank=r, world_size=world,
                                grad_worker_fraction=frac,
                                group_func=group_func,
                                colocate_factors=colocate)
        except Exception as e:  # noqa
            part.violation(f'rejected:{type(e).__name__}',
                           f'rank {r}: k/world rejected ({e}): {key}',
                           {**det, 'first_pair': [world, k]})
            return
        insts.append(a)
        calls.append(rec)
    # another assignment with the same layer names but other costs and
    # another gradient-worker count, built afterwards in the same process
    # (e.g. a second model): the first ones must not change
    k2 = [d for d in divisors(world) if d != k]
    if k2 and work:
        mx = max(max(f.values()) for f in work.values())
        decoy = {l: {f: mx + 1.0 - c for f, c in fs.items()}
                 for l, fs in work.items()}
        try:
            KAISAAssignment(decoy, local_rank=world - 1, world_size=world,
                            grad_worker_fraction=k2[-1] / world,
                            group_func=lambda ranks: tuple(sorted(ranks)),
                            colocate_factors=not colocate)
        except Exception:  # noqa  (its own validity is checked elsewhere)
            pass
    part.count('evaluations', world)
    cols, rows = ref_grid(world, k)
    # same group_func sequence everywhere
    for r in range(1, world):
        if calls[r] != calls[0]:
            bad('group-seq', f'rank {r} created groups {calls[r][:4]}.. but '
                f'rank 0 {calls[0][:4]}..')
            return
    if {frozenset(c) for c in calls[0]} != set(cols) | set(rows):
        bad('groups', 'created groups are not exactly the grid rows and '
            f'columns: {calls[0][:6]}')
        return
    a0 = insts[0]
    layers = a0.get_layers()
    if set(layers) != set(work):
        bad('layers', f'get_layers() = {layers}')
        return
    for r, a in enumerate(insts):
        if a.broadcast_gradients() != (k < world) or \
                a.broadcast_inverses() != (k > 1):
            bad('flags', f'rank {r}: broadcast_gradients='
                f'{a.broadcast_gradients()} broadcast_inverses='
                f'{a.broadcast_inverses()}')
            return
        if a.get_layers() != layers:
            bad('layers', f'rank {r} lists layers differently')
            return
    # receiver groups: partition of the world into rows
    rg = [frozenset(insts[r].grad_receiver_group(layers[0]))
          for r in range(world)] if layers else []
    for r in range(world if layers else 0):
        if r not in rg[r] or rg[r] not in rows:
            bad('receiver-group', f'rank {r} receiver group {sorted(rg[r])}')
            return
    for layer in layers:
        invs = {f: a0.inv_worker(layer, f) for f in a0.get_factors(layer)}
        if set(invs) != set(work[layer]):
            bad('factors', f'{layer}: factors {sorted(invs)}')
            return
        gw = frozenset(r for r in range(world)
                       if insts[r].is_grad_worker(layer))
        if gw not in cols:
            bad('worker-group', f'{layer}: gradient workers {sorted(gw)} are '
                f'not a column of the grid')
            return
        if not set(invs.values()) <= gw:
            bad('inv-outside-group', f'{layer}: inverse workers {invs} not '
                f'inside the gradient-worker group {sorted(gw)}')
            return
        if colocate and len(set(invs.values())) != 1:
            bad('colocate', f'{layer}: {invs}')
            return
        for r, a in enumerate(insts):
            mine = {f: a.inv_worker(layer, f) for f in a.get_factors(layer)}
            if mine != invs:
                bad('inv-differs', f'{layer}: rank {r} derives {mine}, rank 0 '
                    f'{invs}')
                return
            src = a.src_grad_worker(layer)
            rgl = frozenset(a.grad_receiver_group(layer))
            if rgl != rg[r]:
                bad('receiver-group', f'{layer}: rank {r} receiver group '
                    f'{sorted(rgl)} differs between layers')
                return
            if src not in gw or src not in rgl or len(gw & rgl) != 1:
                bad('src', f'{layer}: rank {r} src={src} gw={sorted(gw)} '
                    f'receivers={sorted(rgl)}')
                return
            if r in gw and src != r:
                bad('src-self', f'{layer}: gradient worker {r} has src {src}')
                return
            if frozenset(a.grad_worker_group(layer)) != gw:
                bad('worker-handle', f'{layer}: rank {r} grad_worker_group '
                    f'handle {a.grad_worker_group(layer)} != {sorted(gw)}')
                return
            if a.factor_group(layer, 'A') is not None:
                bad('factor-group', 'factor group is not the world')
                return
    if world > 1 and len(layers) > 1:
        part.seen('nontrivial', (world, k, colocate, tag))


def grid_case(part, item):
    world, k, mode = item
    from kfac.assignment import KAISAAssignment

    frac = k / world
    cols, rows = ref_grid(world, k)
    try:
        if KAISAAssignment.partition_grad_workers(world, k) != set(cols) or \
                KAISAAssignment.partition_grad_receivers(world, k) != \
                set(rows):
            part.violation('partition', f'partition_grad_* differ from the '
                           f'grid for world={world} k={k}',
                           {'world': world, 'k': k})
    except Exception as e:  # noqa
        part.violation('partition-exception', f'{e} world={world} k={k}',
                       {'world': world, 'k': k})
    if mode == 'inexact':
        check_config(part, world, k, False, CATALOGUE[4], frac, 'inexact')
        return
    if mode == 'small':
        for work in cost_dicts_small():
            for col in (True, False):
                check_config(part, world, k, col, work, frac, 'small')
    else:
        for ci, work in enumerate(CATALOGUE):
            for col in (True, False):
                check_config(part, world, k, col, work, frac, f'cat{ci}')


# -- through KFACPreconditioner (float and enum) ---------------------------
def precond_case(part, item):
    world, k, how = item
    import kfac
    from kfac.enums import DistributedStrategy

    simdist.install()

    def prog(rank, w):
        return None

    w = simdist.World(world, prog)
    if how == 'float':
        frac = k / world
    else:
        frac = {'COMM': DistributedStrategy.COMM_OPT,
                'MEM': DistributedStrategy.MEM_OPT,
                'HYBRID': DistributedStrategy.HYBRID_OPT}[how]
    part.count('evaluations', world)
    res = []
    for r in range(world):
        with w.as_rank(r):
            torch.manual_seed(0)
            model = torch.nn.Sequential(
                torch.nn.Linear(3, 4), torch.nn.ReLU(),
                torch.nn.Linear(4, 2), torch.nn.Linear(2, 5, bias=False))
            try:
                p = kfac.preconditioner.KFACPreconditioner(
                    model, grad_worker_fraction=frac)
            except Exception as e:  # noqa
                part.violation(
                    f'precond-rejected:{how}:{type(e).__name__}',
                    f'KFACPreconditioner(grad_worker_fraction={frac!r}) on '
                    f'world {world} rank {r}: {e}',
                    {'world': world, 'k': k, 'how': how})
                return
            a = p._assignment
            res.append((
                {l: {f: a.inv_worker(l, f) for f in a.get_factors(l)}
                 for l in a.get_layers()},
                {l: a.is_grad_worker(l) for l in a.get_layers()},
                {l: a.src_grad_worker(l) for l in a.get_layers()},
                a.broadcast_gradients(), a.broadcast_inverses()))
    cols, rows = ref_grid(world, k)
    for r in range(1, world):
        if w.newgroup_calls[r] != w.newgroup_calls[0]:
            part.violation(f'precond-newgroup:{how}', f'new_group sequence of '
                           f'rank {r} differs (world {world} k {k})',
                           {'world': world, 'k': k, 'how': how})
            return
        if res[r][0] != res[0][0]:
            part.violation(f'precond-inv:{how}', f'rank {r} derives other '
                           f'inverse workers (world {world} k {k})',
                           {'world': world, 'k': k, 'how': how})
            return
    for l in res[0][0]:
        gw = frozenset(r for r in range(world) if res[r][1][l])
        if gw not in cols or not set(res[0][0][l].values()) <= gw:
            part.violation(f'precond-group:{how}', f'{l}: workers '
                           f'{sorted(gw)} (world {world} k {k})',
                           {'world': world, 'k': k, 'how': how})
            return
        for r in range(world):
            row = [x for x in rows if r in x][0]
            if res[r][2][l] not in (gw & row):
                part.violation(f'precond-src:{how}', f'{l}: rank {r} src '
                               f'{res[r][2][l]}', {'world': world, 'k': k,
                                                   'how': how})
                return
    if any(x[3] != (k < world) or x[4] != (k > 1) for x in res):
        part.violation(f'precond-flags:{how}', f'world {world} k {k}',
                       {'world': world, 'k': k, 'how': how})
    part.seen('nontrivial', ('precond', world, k, how))


XPROC = r"""
import json, sys
sys.path.insert(0, sys.argv[1])
from kfac.assignment import KAISAAssignment
out = {}
cat = json.loads(sys.argv[2])
for world in range(1, 13):
    for k in [d for d in range(1, world + 1) if world % d == 0]:
        for ci, work in enumerate(cat):
            for col in (True, False):
                for r in sorted({0, world // 2, world - 1}):
                    calls = []
                    def gf(ranks, calls=calls):
                        calls.append(list(ranks)); return tuple(sorted(ranks))
                    a = KAISAAssignment(work, local_rank=r, world_size=world,
                        grad_worker_fraction=k / world, group_func=gf,
                        colocate_factors=col)
                    out[f'{world}/{k}/{ci}/{col}/{r}'] = [
                        calls,
                        {l: {f: a.inv_worker(l, f) for f in a.get_factors(l)}
                         for l in a.get_layers()},
                        {l: a.src_grad_worker(l) for l in a.get_layers()}]
print(json.dumps(out, sort_keys=True))
"""


def cross_process(run):
    """Ranks are separate processes: the assignment must not depend on the
    per-process hash seed (string hashing, set iteration order)."""
    import json
    import os
    import subprocess

    outs = {}
    cat = json.dumps(CATALOGUE[:3] + [CATALOGUE[4]])
    procs = {}
    for hs in ('0', '1', '4242', 'random'):
        env = dict(os.environ, PYTHONHASHSEED=hs)
        procs[hs] = subprocess.Popen(
            ['/venv/bin/python', '-W', 'ignore', '-c', XPROC, core.REPO, cat],
            stdout=subprocess.PIPE, stderr=subprocess.PIPE, text=True,
            env=env)
    for hs, p in procs.items():
        o, e = p.communicate(timeout=600)
        if p.returncode:
            run.violation('xproc-exception', f'hash seed {hs}: {e[-300:]}')
            return
        outs[hs] = json.loads(o)
    ref = outs['0']
    run.count('evaluations', sum(len(o) for o in outs.values()))
    for hs, o in outs.items():
        for key in ref:
            if o[key] != ref[key]:
                comp = [i for i in range(3) if o[key][i] != ref[key][i]][0]
                what = ('group creation order', 'inverse workers',
                        'gradient sources')[comp]
                run.violation(
                    'xproc-differs',
                    f'assignment {key} (world/k/catalogue/colocate/rank) '
                    f'derived under PYTHONHASHSEED={hs} differs from the one '
                    f'under PYTHONHASHSEED=0 in its {what}: '
                    f'{str(o[key][comp])[:120]} vs '
                    f'{str(ref[key][comp])[:120]}')
                return
    run.seen('nontrivial', ('xproc', len(ref)))


def main(run: core.Run):
    thorough = run.tier == 'thorough'
    maxw = 512 if thorough else 128
    items = []
    for world in range(1, maxw + 1):
        for k in divisors(world):
            items.append((world, k, 'cat'))
    for world in range(1, 9 if thorough else 7):
        for k in divisors(world):
            items.append((world, k, 'small'))
    # every (world, k) beyond the full range whose product world * (k/world)
    # is not k in floating point (it lands below k for some, above for others)
    lim = 1536 if thorough else 640
    far = [(w, k) for w in range(maxw + 1, lim + 1) for k in divisors(w)
           if w * (k / w) != k]
    run.notes['inexact_pairs_beyond_full_range'] = {
        'up_to_world': lim, 'pairs': len(far),
        'product_above_k': sum(1 for w, k in far if w * (k / w) > k)}
    items += [(w, k, 'inexact') for w, k in far]
    core.pmap(run, grid_case, items,
              weight=lambda it: it[0] * {'cat': 5, 'small': 800,
                                         'inexact': it[0] / 40}[it[2]])
    pitems = []
    for world in range(1, (64 if thorough else 24) + 1):
        for k in divisors(world):
            pitems.append((world, k, 'float'))
        pitems.append((world, world, 'COMM'))
        pitems.append((world, 1, 'MEM'))
        if world % 2 == 0:
            pitems.append((world, world // 2, 'HYBRID'))
    # (world, k) pairs for which world * (k / world) != k in floating point
    inexact = [(w, k) for w in range(1, 257 if not thorough else 601)
               for k in divisors(w) if w * (k / w) != k]
    run.notes['inexact_fraction_pairs'] = len(inexact)
    for w, k in inexact[:5 if not thorough else 60]:
        pitems.append((w, k, 'float'))
    core.pmap(run, precond_case, pitems, weight=lambda it: it[0])
    cross_process(run)
    run.c['states'] = run.c.get('evaluations', 0)
    run.c['transitions'] = run.c.get('evaluations', 0)
    run.c['distinct_nontrivial'] = len(run.distinct.get('nontrivial', ()))
    run.rule = (
        f'every world size 1..{maxw} x every divisor k (as float k/world) x '
        'every local rank x colocate on/off x a catalogue of 5 cost '
        'dictionaries (ties, zeros, 40 layers, 1 layer, wide range); worlds '
        f'<= {8 if thorough else 6}: additionally ALL cost dictionaries with '
        '<=3 layers and costs in {0,1,2}; every pair up to world '
        f'{lim} whose float product world*(k/world) is inexact (below or '
        'above k), all ranks; KFACPreconditioner construction '
        'with the fraction as float and as strategy enum in simulated worlds '
        '(small worlds and the first (world, k) pairs whose fraction is not '
        'exact in floating point, e.g. 98/2);'
        ' evaluations = assignment instances built; non-trivial = world>1 '
        'and >1 layer')
    run.sample({'world': 98, 'k': 2, 'fraction': 2 / 98})
    run.sample({'world': 6, 'k': 3, 'work': CATALOGUE[4]})
    run.assumptions.append('cost values outside the alphabets are not '
                           'explored (C17 covers the greedy core separately)')


def replay(run, data):
    d = data['detail']
    part = core.Part()
    if 'how' in d:
        precond_case(part, (d['world'], d['k'], d['how']))
    elif 'work' in d:
        check_config(part, d['world'], d['k'], d['colocate'], d['work'],
                     d['k'] / d['world'], d['tag'])
    else:
        grid_case(part, (d['world'], d['k'], 'cat'))
    run.merge(part.dump())
