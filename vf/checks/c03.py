"""C03 - all ranks issue matching collectives and no rank ever stalls.

The oracle is simdist itself (matching, membership, new_group sequences,
deadlock, completeness); this check drives it over operation histories,
configurations and interleavings."""
from __future__ import annotations

import itertools

from vf import core
from vf import distcheck as DC
from vf import kfacrun as K
from vf import simdist
from vf.digest import kfac_state


def name_of(cfg):
    k = cfg['kfac']
    return (f"{cfg['model']}/w{cfg['world']}/gwf={k['grad_worker_fraction']}"
            f"/F={k['factor_update_steps']}/I={k['inv_update_steps']}/acc="
            f"{k.get('accumulation_steps', 1)}/hook="
            f"{k.get('update_factors_in_hook', True)}/cap="
            f"{k.get('allreduce_bucket_cap_mb', 25.0)}/sym="
            f"{k.get('symmetry_aware', False)}/{K.method_of(cfg)}/col="
            f"{k.get('colocate_factors', True)}/idt={k.get('inv_dtype')}/"
            f"fdt={k.get('factor_dtype')}")


def hist_name(h):
    def one(o):
        if o[0] in ('state', 'mem', 'reload') and len(o) > 1:
            return f'{o[0]}@{o[1]}'
        if o[0] == 'ckpt':
            return f'load(inv={o[2]})'
        return o[0]
    return [one(o) for o in h]


def alphabet(world):
    return [['train'], ['eval'], ['state'], ['state', [0]], ['mem'],
            ['mem', [world - 1]], ['ckpt', True, True],
            ['ckpt', True, False], ['reload', [0]], ['train_evalsub']]


def program_of(cfg):
    base = K.make_program(cfg)

    def program(rank, world):
        rec = base(rank, world)
        run = world.store['runs'][rank]
        world.tag[rank] = ('final-flush',)
        run.pre._tdc.flush_allreduce_buckets()
        return rec

    return program


def run_history(cfg, hist, sname):
    c = dict(cfg, history=hist, record_factors=False)
    w = simdist.run_world(c['world'], program_of(c), sname)
    bad = DC.sim_bad(w)
    if not bad:
        for r in range(w.n):
            for e in w.trace[r]:
                if e['tag'] == ('final-flush',):
                    bad.append(('pending-bucket', f'rank{r}: a bucket was '
                                f'still open at the end ({e["kind"]} '
                                f'{e["sig"]})'))
                    break
    return w, bad


def valid_next(cfg, hist, op):
    """Do not generate what the documentation excludes: after a load with
    compute_inverses=False the next training step must be an
    inverse-update step (we simply require the very next op to be a train
    on such a step, or another load)."""
    if not hist:
        # (factors must exist before a layer may skip a batch)
        return op[0] != 'train_evalsub'
    # count steps
    steps = sum(1 for o in hist if o[0] in ('train', 'train_evalsub'))
    k = cfg['kfac']
    inv = K.mk_hp(k['inv_update_steps'])
    fus = K.mk_hp(k['factor_update_steps'])
    iv = inv(steps) if callable(inv) else inv
    fv = fus(steps) if callable(fus) else fus
    pending = False   # second-order data missing
    for o in hist:
        if o[0] == 'ckpt':
            pending = not o[2]
        elif o[0] in ('train', 'train_evalsub'):
            pending = False
    if pending and op[0] in ('train', 'train_evalsub') and steps % iv != 0:
        return False
    if steps == 0 and op[0] == 'train' and steps % fv != 0:
        return False
    if op[0] == 'train_evalsub' and steps == 0:
        return False  # factors must exist before a layer skips a batch
    return True


def bfs_case(part, item):
    cfg, depth, snames = item
    name = name_of(cfg)
    ops = alphabet(cfg['world'])
    seen = set()
    frontier = [[]]
    states = 0
    while frontier:
        nxt = []
        for hist in frontier:
            for op in ops:
                if not valid_next(cfg, hist, op):
                    continue
                h2 = hist + [op]
                key = None
                for sname in snames:
                    try:
                        w, bad = run_history(cfg, h2, sname)
                    except Exception as e:  # noqa
                        bad, w = [('harness', f'{type(e).__name__}: {e}')], \
                            None
                    part.count('executions')
                    part.count('transitions')
                    if w is not None:
                        part.count('sim_points', w.stats['points'])
                        part.count('collective_instances',
                                   w.stats['instances'])
                    if bad:
                        part.violation(
                            f"{bad[0][0]}:{hist_name([op])[0]}:"
                            f"{'hybrid' if 1 < _k(cfg) < cfg['world'] else 'edge'}"
                            f":w{cfg['world']}",
                            f'{name} history={hist_name(h2)} [{sname}]: '
                            f'{bad[0][1]}',
                            {'cfg': cfg, 'history': h2, 'schedule': sname,
                             'mode': 'bfs'})
                        key = 'bad'
                        break
                    if key is None:
                        runs = w.store['runs']
                        key = tuple(kfac_state(runs[r].pre, (), 0)
                                    for r in range(w.n))
                if key == 'bad' or key in seen:
                    continue
                seen.add(key)
                states += 1
                part.count('states')
                if len(h2) < depth:
                    nxt.append(h2)
        frontier = nxt
    part.seen('nontrivial', name)
    part.sample({'config': name, 'distinct_states': states}, limit=2)


def _k(cfg):
    g = cfg['kfac']['grad_worker_fraction']
    n = cfg['world']
    if isinstance(g, str):
        return {'COMM_OPT': n, 'MEM_OPT': 1, 'HYBRID_OPT': n // 2}[g]
    return max(1, round(n * g))


def explore_case(part, item):
    cfg, delivery, bound = item
    name = name_of(cfg) + f'/hist={hist_name(cfg["history"])}/{delivery}' + \
        (f'/dev<={bound}' if bound is not None else '/exhaustive')
    viols = []
    try:
        res = DC.explore_cfg(cfg, delivery, None, bound,
                             program=program_of(cfg))
    except Exception as e:  # noqa
        part.violation(f'harness:{type(e).__name__}', f'{name}: {e}',
                       {'cfg': cfg, 'mode': 'explore'})
        return
    DC.absorb(part, res, name, viols)
    part.seen('nontrivial', name)
    if viols:
        part.violation(f"{viols[0][0]}:explore:w{cfg['world']}",
                       f'{name}: {viols[0][1]}',
                       {'cfg': cfg, 'mode': 'explore', 'delivery': delivery,
                        'bound': bound})


def construct_case(part, item):
    from vf.checks import c06

    c06.precond_case(part, item)


def configs(thorough, seed):
    out = []
    methods = [('eigen', True), ('eigen', False), ('inverse', False)]
    fis = [(1, 1), (1, 2), (2, 2), (2, 3), (3, 2), (3, 3), (1, 3), (2, 1),
           (3, 1), (['cyc', [1, 2]], ['cyc', [2, 1, 3]])]
    i = 0
    for world in (2, 4):
        for k in [d for d in range(1, world + 1) if world % d == 0]:
            for (f, inv), acc, hook, cap, sym, (m, pre), col in \
                    itertools.product(fis, (1, 2), (True, False),
                                      (0.0, 25.0), (False, True), methods,
                                      (True, False)):
                if pre and not col:
                    continue
                if not col and (acc == 2 or sym):
                    continue
                i += 1
                if (i + seed) % (4 if thorough else 23):
                    continue  # rotating share of the box (see run.cap)
                kk = dict(damping=0.05, factor_decay=0.5, kl_clip=1e-3,
                          lr=0.1, compute_method=m,
                          compute_eigenvalue_outer_product=pre,
                          factor_update_steps=f, inv_update_steps=inv,
                          accumulation_steps=acc,
                          update_factors_in_hook=hook,
                          allreduce_bucket_cap_mb=cap, symmetry_aware=sym,
                          colocate_factors=col,
                          grad_worker_fraction=k / world)
                if i % 2:
                    kk['inv_dtype'] = 'f64'
                if i % 3 == 0:
                    kk['factor_dtype'] = 'f64'
                # every other configuration on a model with a convolution
                # (4-D weights) and a bias-free layer
                out.append({'model': ('mlp2', 'conv', 'mlp2', 'nbfirst')[
                                len(out) % 4],
                            'dtype': 'f32', 'batch': 2,
                            'world': world, 'seed': seed, 'kfac': kk})
    return out


def explorations(thorough, seed):
    def cfg(model, world, frac, m, pre, cap, hist, f=1, inv=1):
        kk = dict(damping=0.05, factor_decay=0.5, kl_clip=1e-3, lr=0.1,
                  compute_method=m, compute_eigenvalue_outer_product=pre,
                  factor_update_steps=f, inv_update_steps=inv,
                  allreduce_bucket_cap_mb=cap, grad_worker_fraction=frac)
        return {'model': model, 'dtype': 'f32', 'batch': 2, 'world': world,
                'seed': seed, 'kfac': kk, 'record_factors': False,
                'history': hist}

    T, L, S0, M1 = ['train'], ['ckpt', True, True], ['state', [0]], \
        ['mem', [1]]
    out = [
        (cfg('lin1', 2, 'COMM_OPT', 'eigen', True, 25.0, [T, L, T]),
         'eager', None),
        (cfg('lin1', 2, 'MEM_OPT', 'inverse', False, 0.0, [T, S0, M1, T]),
         'eager', None),
        (cfg('lin1', 2, 'COMM_OPT', 'inverse', False, 25.0, [T, T],
             f=1, inv=2), 'free', None),
        (cfg('lin1', 4, 'HYBRID_OPT', 'eigen', True, 25.0, [T, L]),
         'eager', 1),
        (cfg('mlp2', 4, 'HYBRID_OPT', 'eigen', True, 25.0,
             [T, S0, T, L, T], f=2, inv=3), 'eager', 1),
    ]
    if thorough:
        out += [
            (cfg('mlp2', 2, 'COMM_OPT', 'eigen', True, 25.0, [T, L, T]),
             'eager', None),
            (cfg('lin1', 3, 1 / 3, 'eigen', False, 0.0, [T, L, T]),
             'eager', None),
            (cfg('lin1', 4, 'HYBRID_OPT', 'eigen', True, 25.0, [T, L, T]),
             'eager', None),
            (cfg('mlp2', 4, 'HYBRID_OPT', 'inverse', False, 0.0,
                 [T, S0, T, L, T], f=2, inv=3), 'eager', 2),
        ]
    return out


def gpt_case(part, item):
    """GPT-NeoX: construction (and a few iterations) on a 3-D topology;
    the oracle is simdist (matching, membership, new_group, stalls)."""
    P, D, M, hist, bias, sname = item
    from vf import gptrun as G

    cfg = {'dp': D, 'mp': M, 'pp': P, 'bias': bias, 'batch': 2, 'seed': 0,
           'kfac': dict(damping=0.05, factor_decay=0.5, kl_clip=1e-3,
                        lr=0.1, allreduce_bucket_cap_mb=25.0),
           'loss_mult': 4.0, 'history': hist}
    name = f'gpt topology=({P},{D},{M}) bias={bias} history=' \
           f'{hist_name(hist)}'
    try:
        w = simdist.run_world(P * D * M, G.make_program(cfg), sname)
        bad = DC.sim_bad(w)
        for r in range(w.n):
            for e in w.trace[r]:
                if e['tag'] == ('final-flush',):
                    bad.append(('pending-bucket', f'rank{r}'))
                    break
    except Exception as e:  # noqa
        bad = [('harness', f'{type(e).__name__}: {e}')]
    part.count('executions')
    part.count('transitions')
    if bad:
        cls = f"pipe{'>1' if P > 1 else '=1'}:data{'>1' if D > 1 else '=1'}" \
              f":model{'>1' if M > 1 else '=1'}"
        part.violation(f'gpt:{bad[0][0]}:{cls}', f'{name} [{sname}]: '
                       f'{bad[0][1]}', {'gpt': list(item)})
    part.seen('nontrivial', name)


def any_case(part, item):
    kind, payload = item
    {'bfs': bfs_case, 'explore': explore_case, 'gpt': gpt_case,
     'construct': construct_case}[kind](part, payload)


def main(run: core.Run):
    thorough = run.tier == 'thorough'
    depth = 4 if thorough else 3
    cfgs = configs(thorough, run.seed)
    snames = ('S0-lowest-eager', 'S3-lowest-lazy-poison') if not thorough \
        else ('S0-lowest-eager', 'S2-roundrobin-eager',
              'S3-lowest-lazy-poison')
    items = [('bfs', (c, depth, snames)) for c in cfgs]
    exps = explorations(thorough, run.seed)
    items += [('explore', e) for e in exps]
    for world in range(1, 17):
        for k in [d for d in range(1, world + 1) if world % d == 0]:
            items.append(('construct', (world, k, 'float')))

    T, S, L = ['train'], ['state'], ['ckpt', True, True]
    for P, D, M in itertools.product((1, 2, 3), repeat=3):
        items.append(('gpt', (P, D, M, [], True, 'S0-lowest-eager')))
    for D, M in ((2, 1), (1, 2), (2, 2)):
        for bias in (True, False):
            for sname in snames:
                items.append(('gpt', (1, D, M, [T, T, S, L, T], bias,
                                      sname)))
    items.append(('gpt', (2, 2, 2, [T, T], True, 'S3-lowest-lazy-poison')))

    def weight(it):
        if it[0] == 'gpt':
            return 40 * it[1][0] * it[1][1] * it[1][2] * (
                1 + len(it[1][3]))
        if it[0] == 'bfs':
            return 300 * it[1][0]['world'] ** 2
        if it[0] == 'explore':
            return 3000 * it[1][0]['world'] * len(it[1][0]['history'])
        return it[1][0]

    core.pmap(run, any_case, items, weight=weight)
    # ranks are separate interpreters: the new_group sequence must not depend
    # on the per-process hash seed (same pass as C06, which also compares
    # the recorded group creation order)
    from vf.checks import c06
    c06.cross_process(run)
    run.c['evaluations'] = run.c.get('executions', 0) + \
        run.c.get('evaluations', 0)
    run.c['distinct_nontrivial'] = len(run.distinct.get('nontrivial', ()))
    run.notes['bfs_configurations'] = len(cfgs)
    run.notes['bfs_depth'] = depth
    run.notes['explorations'] = len(exps)
    run.rule = (
        f'operation-history BFS to depth {depth} over {{train, eval, '
        'factor-less reload on one rank, an iteration with one sub-module in eval mode, '
        'state_dict on all ranks / rank 0 only, memory_usage on all ranks / '
        'one rank, load_state_dict(compute_inverses=T/F) of the latest state '
        'into fresh objects}} (states merged by the digest of all ranks\' '
        'K-FAC state) for worlds 2 and 4 x all gradient-worker counts x '
        'interval pairs (constant and callable) x accumulation x hook/'
        'no-hook x bucketed/unbucketed x symmetric/dense x 3 methods x '
        'colocation, each history run under 2-3 schedules incl. lazy '
        'delivery; exhaustive / deviation-bounded interleavings of small '
        'histories with load/state/memory operations; construction for '
        'every world <= 16 x divisor (and, in separate interpreters with '
        'different hash seeds, identical group creation order); GPT-NeoX construction on every (pipe,'
        ' data, model) in {1,2,3}^3 and train/state/load histories on '
        '(2,1),(1,2),(2,2),(2,2,2); oracle = matching of kind/shape/'
        'dtype/root per group instance, membership, identical new_group '
        'sequences, no stall, every instance completed, no open bucket')
    run.sample({'config': name_of(cfgs[0]),
                'history': hist_name([['train'], ['state', [0]],
                                      ['ckpt', True, True]])})
    run.assumptions += ['simdist per-group FIFO matching stands in for '
                        'gloo/NCCL', 'GPT-NeoX paths are covered by '
                        'C11/C12/C18 with the same oracle']
    run.cap(('thorough explores 1/4' if thorough else 'quick explores 1/23')
            + ' of the BFS configuration box per seed (rotating)')


def replay(run, data):
    d = data['detail']
    part = core.Part()
    if d.get('mode') == 'explore':
        explore_case(part, (d['cfg'], d['delivery'], d['bound']))
    elif 'gpt' in d:
        it = d['gpt']
        gpt_case(part, (it[0], it[1], it[2], it[3], it[4], it[5]))
    else:
        w, bad = run_history(d['cfg'], d['history'], d['schedule'])
        part.count('executions')
        if bad:
            part.violation(f'replay:{bad[0][0]}', bad[0][1], d)
    run.merge(part.dump())
