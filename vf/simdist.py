"""simdist: N ranks of real kfac code inside one process.

Each rank is a thread; exactly one runs at a time (semaphore baton).  The
torch.distributed entry points kfac uses are replaced by dispatchers that
join *collective instances* of a simulated world; every join and every wait
on a future is a scheduling point owned by whoever drives the world (a fixed
schedule or the explorer in explore.py).  See DESIGN.md section 2.1/2.2.
"""
from __future__ import annotations

import contextlib
import hashlib
import sys
import threading
import traceback

import torch
import torch.distributed as dist

_tls = threading.local()


def cur() -> 'World | None':
    return getattr(_tls, 'world', None)


def cur_rank() -> int:
    return _tls.rank


class _Baton:
    """Binary hand-off on a raw lock (much cheaper than Semaphore)."""

    __slots__ = ('l',)

    def __init__(self):
        self.l = threading.Lock()
        self.l.acquire()

    def acquire(self):
        self.l.acquire()

    def release(self):
        self.l.release()


class Abort(BaseException):
    """Raised inside rank threads to unwind an abandoned execution."""


class SimViolation(Exception):
    """A matching / membership violation decided by the environment."""


class SimGroup(dist.ProcessGroup):
    def __init__(self, world, gid, ranks):
        super().__init__(0, max(1, len(ranks)))
        self.world_ = world
        self.gid = gid
        self.ranks = tuple(sorted(ranks))

    def __repr__(self):
        return f'SimGroup#{self.gid}{list(self.ranks)}'


class Work:
    def __init__(self, fut):
        self._fut = fut

    def get_future(self):
        return self._fut

    def wait(self):
        self._fut.wait()
        return True

    def is_completed(self):
        return self._fut.done()


class Inst:
    __slots__ = ('gid', 'k', 'kind', 'sig', 'members', 'joined', 'bufs',
                 'futs', 'delivered', 'ver', 'seq', 'root', 'first')

    def __init__(self, gid, k, kind, sig, members, root):
        self.gid, self.k, self.kind, self.sig = gid, k, kind, sig
        self.members, self.root = members, root
        self.joined, self.bufs, self.futs = {}, {}, {}
        self.delivered, self.ver = set(), {}
        self.seq = {}
        self.first = None

    def ready(self):
        return len(self.joined) == len(self.members)


def _poisonable(t):
    return t.is_floating_point()


class World:
    def __init__(self, n, program, delivery='eager', poison=True,
                 want_key=False, initialized=True, fine_files=()):
        assert delivery in ('eager', 'lazy', 'free')
        self.n, self.program = n, program
        self.delivery, self.poison = delivery, poison
        self.want_key = want_key
        self.initialized = initialized
        # fine-grained completion points: in real backends the callbacks of
        # a completed collective run on another thread, i.e. between any
        # two lines of the caller.  With delivery='free', every line of the
        # listed source files executed by a rank while one of its collectives
        # is ready-but-undelivered is a point at which that delivery (and
        # only that rank's transitions) may be interleaved.
        self.fine_files = tuple(fine_files)
        self.sem = [_Baton() for _ in range(n)]
        self.sched = _Baton()
        self.status = [('new',)] * n  # ('ready',label)|('wait',fut)|('done',)
        self.pc = [0] * n
        self.hist = [b''] * n
        self.digest_fn = [None] * n
        self.results = [None] * n
        self.errors = [None] * n
        self.aborting = False
        self.threads = []
        self.groups = []  # gid -> SimGroup
        self.world_group = self._mkgroup(range(n))
        self.newgroup_calls = [[] for _ in range(n)]
        self.newgroup_objs = []
        self.insts = {}
        self.joincnt = [dict() for _ in range(n)]
        self.delivcnt = [dict() for _ in range(n)]
        self.pending = [dict() for _ in range(n)]  # r -> gid -> [Inst]
        self.joinseq = 0
        self.trace = [[] for _ in range(n)]
        self.tag = [None] * n
        self.violations = []  # (kind, text)
        self.stats = {'blocked_waits': 0, 'instances': 0, 'points': 0}
        self.lineage = {}  # id(fut) -> Inst (kept alive by futs list)
        self._keep = []
        self.store = {}  # free-form, for programs

    # ------------------------------------------------------------ groups
    def _mkgroup(self, ranks):
        g = SimGroup(self, len(self.groups), list(ranks))
        self.groups.append(g)
        return g

    def group_of(self, group):
        if group is None or group is dist.group.WORLD:
            return self.world_group
        if not isinstance(group, SimGroup):
            raise TypeError(f'not a SimGroup: {group!r}')
        return group

    # --------------------------------------------------------- threading
    def start(self):
        for r in range(self.n):
            t = threading.Thread(target=self._body, args=(r,), daemon=True)
            self.threads.append(t)
            t.start()
            self.sched.acquire()
        return self

    def _body(self, r):
        _tls.world, _tls.rank, _tls.is_rank = self, r, True
        if self.fine_files and self.delivery == 'free':
            sys.settrace(self._trace_call)
        try:
            self._park(r, ('ready', 'start'))
            self.results[r] = self.program(r, self)
        except Abort:
            pass
        except SimViolation:
            self.errors[r] = ('SimViolation', '')
        except BaseException as e:  # noqa
            self.errors[r] = (f'{type(e).__name__}: {e}',
                              traceback.format_exc())
        finally:
            sys.settrace(None)
            self.status[r] = ('done',)
            _tls.world = None
            self.sched.release()

    def _trace_call(self, frame, event, arg):
        if event == 'call' and frame.f_code.co_filename.endswith(
                self.fine_files):
            return self._trace_line
        return None

    def _trace_line(self, frame, event, arg):
        if event == 'line' and not self.aborting:
            r = _tls.rank
            for q in self.pending[r].values():
                if q and q[0].ready():
                    self.stats['line_points'] = self.stats.get(
                        'line_points', 0) + 1
                    self._park(r, ('line', frame.f_lineno))
                    break
        return self._trace_line

    def _park(self, r, st):
        if self.want_key:
            fn = self.digest_fn[r]
            d = fn() if fn is not None else b''
            h = hashlib.blake2b(self.hist[r], digest_size=16)
            h.update(repr(st[1] if st[0] in ('ready', 'line')
                          else 'wait').encode())
            h.update(d)
            self.hist[r] = h.digest()
        self.pc[r] += 1
        self.stats['points'] += 1
        self.status[r] = st
        self.sched.release()
        self.sem[r].acquire()
        if self.aborting:
            raise Abort()

    def point(self, label='op'):
        """Harness-level scheduling point (called from a rank thread)."""
        self._park(_tls.rank, ('ready', label))

    def set_digest(self, fn):
        self.digest_fn[_tls.rank] = fn

    @contextlib.contextmanager
    def as_rank(self, r):
        ow, orr = getattr(_tls, 'world', None), getattr(_tls, 'rank', None)
        _tls.world, _tls.rank = self, r
        try:
            yield
        finally:
            _tls.world, _tls.rank = ow, orr

    # -------------------------------------------------------- scheduling
    def _rank_enabled(self, r):
        st = self.status[r]
        if st[0] in ('ready', 'line'):
            return True
        if st[0] == 'wait':
            if st[1].done():
                return True
            if self.delivery == 'lazy':
                return self._oldest_ready(r) is not None
        return False

    def _oldest_ready(self, r):
        best = None
        for q in self.pending[r].values():
            if q and q[0].ready():
                if best is None or q[0].seq[r] < best.seq[r]:
                    best = q[0]
        return best

    def enabled(self):
        if self.violations:
            return []
        for r in range(self.n):
            if self.status[r][0] == 'line':
                # only this rank's own transitions: everything else
                # commutes with its local lines
                return [('R', r)] + [
                    ('D', r, gid) for gid in sorted(self.pending[r])
                    if self.pending[r][gid] and self.pending[r][gid][0].ready()]
        en = [('R', r) for r in range(self.n) if self._rank_enabled(r)]
        if self.delivery == 'free':
            for r in range(self.n):
                for gid in sorted(self.pending[r]):
                    q = self.pending[r][gid]
                    if q and q[0].ready():
                        en.append(('D', r, gid))
        return en

    def fire(self, t):
        if t[0] == 'R':
            r = t[1]
            st = self.status[r]
            if st[0] == 'wait' and not st[1].done():
                # lazy: deliver what this rank is blocked on, oldest first
                assert self.delivery == 'lazy'
                while not st[1].done():
                    inst = self._oldest_ready(r)
                    if inst is None:
                        return  # still blocked
                    self._deliver(inst, r)
            self.sem[r].release()
            self.sched.acquire()
        else:
            _, r, gid = t
            self._deliver(self.pending[r][gid][0], r)

    def all_done(self):
        return all(s[0] == 'done' for s in self.status)

    def key(self):
        st = tuple(s[0] for s in self.status)
        dl = ()
        if self.delivery == 'free':
            dl = tuple(tuple(sorted(d.items())) for d in self.delivcnt)
        return (tuple(self.pc), st, dl, tuple(self.hist))

    def close(self):
        """Unwind every parked rank thread."""
        self.aborting = True
        for r, t in enumerate(self.threads):
            while self.status[r][0] != 'done':
                self.sem[r].release()
                self.sched.acquire()
        for t in self.threads:
            t.join(timeout=5)
        self.threads = []

    def run(self, chooser=None, max_steps=1000000):
        """Run to completion under `chooser(world, enabled) -> transition`."""
        self.start()
        steps = 0
        try:
            while True:
                en = self.enabled()
                if not en:
                    break
                t = chooser(self, en) if chooser else en[0]
                self.fire(t)
                steps += 1
                if steps > max_steps:
                    self.violations.append(('harness', 'step cap'))
                    break
        finally:
            self.finalize()
            self.close()
        return self

    def finalize(self):
        """Record stalls and incomplete operations (call before close)."""
        if self.violations:
            return
        if not self.all_done():
            blocked = []
            for r, st in enumerate(self.status):
                if st[0] == 'wait':
                    inst = self.lineage.get(id(st[1]))
                    if inst is not None:
                        miss = [m for m in inst.members
                                if m not in inst.joined]
                        blocked.append(
                            f'rank{r} waits on {inst.kind}#{inst.k} of '
                            f'{self.groups[inst.gid]} missing={miss}')
                    else:
                        blocked.append(f'rank{r} waits on a future nobody '
                                       f'completes')
                elif st[0] != 'done':
                    blocked.append(f'rank{r} {st}')
            errs = [e for e in self.errors if e]
            if not errs:
                self.violations.append(('stall', '; '.join(blocked)))
            return
        for (gid, k), inst in self.insts.items():
            if not inst.ready():
                miss = [m for m in inst.members if m not in inst.joined]
                self.violations.append((
                    'incomplete',
                    f'{inst.kind}#{k} on {self.groups[gid]} joined by '
                    f'{sorted(inst.joined)} never joined by {miss}'))
                return
        ref = self.newgroup_calls[0]
        for r in range(1, self.n):
            if self.newgroup_calls[r] != ref:
                self.violations.append((
                    'new_group',
                    f'rank0 created {ref} but rank{r} created '
                    f'{self.newgroup_calls[r]}'))
                return

    # ------------------------------------------------------- collectives
    def _violate(self, kind, text):
        self.violations.append((kind, text))
        raise SimViolation(text)

    def new_group(self, ranks=None, **kw):
        r = _tls.rank
        ranks = list(range(self.n)) if ranks is None else list(ranks)
        k = len(self.newgroup_calls[r])
        self.newgroup_calls[r].append(tuple(ranks))
        if k < len(self.newgroup_objs):
            ref_ranks, g = self.newgroup_objs[k]
            if ref_ranks != tuple(ranks):
                self._violate(
                    'new_group',
                    f'{k}-th new_group: rank{r} passes {ranks}, an earlier '
                    f'rank passed {list(ref_ranks)}')
            return g
        bad = [x for x in ranks if not 0 <= x < self.n]
        if bad or len(set(ranks)) != len(ranks):
            self._violate('new_group', f'bad rank list {ranks}')
        g = self._mkgroup(ranks)
        self.newgroup_objs.append((tuple(ranks), g))
        return g

    def _join(self, group, kind, sig, payload, buf, root=None,
              poison_buf=True, check=()):
        r = _tls.rank
        g = self.group_of(group)
        self._park(r, ('ready', ('join', kind, g.gid)))
        if r not in g.ranks:
            self._violate(
                'non-member',
                f'rank{r} calls {kind} on {g} which it is not a member of')
        tens = [buf] if isinstance(buf, torch.Tensor) else (
            [t for t in buf if isinstance(t, torch.Tensor)]
            if isinstance(buf, list) else [])
        tens += list(check)
        for t in tens:
            if not t.is_contiguous():
                # real backends operate on the raw storage (gloo) or raise
                # (NCCL): passing a strided view is a caller error
                self._violate(
                    'non-contiguous',
                    f'rank{r} passes a non-contiguous tensor (shape '
                    f'{tuple(t.shape)}, stride {t.stride()}) to {kind} on '
                    f'{g}')
        if root is not None and root not in g.ranks:
            self._violate(
                'root', f'rank{r}: {kind} root {root} not in {g}')
        k = self.joincnt[r].get(g.gid, 0)
        self.joincnt[r][g.gid] = k + 1
        inst = self.insts.get((g.gid, k))
        if inst is None:
            inst = Inst(g.gid, k, kind, sig, g.ranks, root)
            inst.first = r
            self.insts[(g.gid, k)] = inst
            self.stats['instances'] += 1
        elif inst.kind != kind or inst.sig != sig:
            self._violate(
                'mismatch',
                f'{k}-th collective on {g}: rank{r} issues {kind}{sig} but '
                f'rank{inst.first} issued {inst.kind}{inst.sig}')
        self.trace[r].append({
            'kind': kind, 'gid': g.gid, 'ranks': g.ranks, 'root': root,
            'sig': sig, 'tag': self.tag[r],
            'numel': (buf.numel() if isinstance(buf, torch.Tensor) else 0),
        })
        fut = torch.futures.Future()
        inst.joined[r] = payload
        inst.bufs[r] = buf
        inst.futs[r] = fut
        self.lineage[id(fut)] = inst
        self._keep.append(fut)
        self.joinseq += 1
        inst.seq[r] = self.joinseq
        self.pending[r].setdefault(g.gid, []).append(inst)
        if isinstance(buf, torch.Tensor):
            if (self.poison and poison_buf and _poisonable(buf)
                    and r != root):
                buf.fill_(float('nan'))
            inst.ver[r] = buf._version
        if inst.ready() and self.delivery == 'eager':
            for m in inst.members:
                # per-rank FIFO: everything older on this group is delivered
                self._deliver(inst, m)
        return fut

    def _result_for(self, inst, r):
        kind = inst.kind
        mem = inst.members
        if kind == 'all_reduce':
            acc = inst.joined[mem[0]].clone()
            for m in mem[1:]:
                acc = acc + inst.joined[m]
            return acc
        if kind == 'broadcast':
            return inst.joined[inst.root]
        if kind == 'all_gather':
            return [inst.joined[m] for m in mem]
        if kind == 'reduce_scatter':
            i = mem.index(r)
            acc = inst.joined[mem[0]][i].clone()
            for m in mem[1:]:
                acc = acc + inst.joined[m][i]
            return acc
        if kind == 'all_gather_object':
            return [inst.joined[m] for m in mem]
        if kind == 'barrier':
            return None
        raise AssertionError(kind)

    def _deliver(self, inst, r):
        q = self.pending[r][inst.gid]
        assert q and q[0] is inst, 'per-rank per-group FIFO delivery'
        q.pop(0)
        self.delivcnt[r][inst.gid] = self.delivcnt[r].get(inst.gid, 0) + 1
        inst.delivered.add(r)
        res = self._result_for(inst, r)
        buf = inst.bufs[r]
        if isinstance(buf, torch.Tensor) and r in inst.ver:
            if buf._version != inst.ver[r]:
                self.violations.append((
                    'hazard',
                    f'rank{r} modified the buffer of {inst.kind}#{inst.k} on '
                    f'{self.groups[inst.gid]} while it was in flight'))
        with torch.no_grad():
            if inst.kind in ('all_reduce', 'reduce_scatter'):
                buf.copy_(res)
            elif inst.kind == 'broadcast':
                if r != inst.root:
                    buf.copy_(res)
            elif inst.kind == 'all_gather':
                for o, v in zip(buf, res):
                    o.copy_(v)
            elif inst.kind == 'all_gather_object':
                for i, v in enumerate(res):
                    buf[i] = v
        val = [buf] if isinstance(buf, torch.Tensor) else buf
        with self.as_rank(r):
            inst.futs[r].set_result(val)

    def wait_point(self, fut):
        r = _tls.rank
        if not fut.done():
            self.stats['blocked_waits'] += 1
        self._park(r, ('wait', fut))

    # -- the torch.distributed surface ------------------------------------
    def all_reduce(self, tensor, op=None, group=None, async_op=False):
        if op is not None and op != dist.ReduceOp.SUM:
            raise NotImplementedError('simdist: only SUM')
        sig = ('sum', str(tensor.dtype), tuple(tensor.shape))
        fut = self._join(group, 'all_reduce', sig,
                         tensor.detach().clone(), tensor)
        if async_op:
            return Work(fut)
        self.wait_point(fut)
        return None

    def broadcast(self, tensor, src=None, group=None, async_op=False,
                  group_src=None):
        if src is None:
            src = self.group_of(group).ranks[group_src]
        sig = (src, str(tensor.dtype), tuple(tensor.shape))
        fut = self._join(group, 'broadcast', sig,
                         tensor.detach().clone(), tensor, root=src)
        if async_op:
            return Work(fut)
        self.wait_point(fut)
        return None

    def all_gather(self, tensor_list, tensor, group=None, async_op=False):
        sig = (str(tensor.dtype), tuple(tensor.shape), len(tensor_list))
        g = self.group_of(group)
        if len(tensor_list) != len(g.ranks):
            self._violate('mismatch', 'all_gather output list length '
                          f'{len(tensor_list)} != group size {len(g.ranks)}')
        fut = self._join(group, 'all_gather', sig,
                         tensor.detach().clone(), list(tensor_list),
                         poison_buf=False, check=[tensor])
        if async_op:
            return Work(fut)
        self.wait_point(fut)
        return None

    def reduce_scatter(self, output, input_list, op=None, group=None,
                       async_op=False):
        sig = (str(output.dtype), tuple(output.shape), len(input_list),
               tuple(tuple(t.shape) for t in input_list))
        g = self.group_of(group)
        if len(input_list) != len(g.ranks):
            self._violate('mismatch', 'reduce_scatter input list length')
        for t in input_list:
            if tuple(t.shape) != tuple(output.shape):
                self._violate('mismatch', 'reduce_scatter chunk shape '
                              f'{tuple(t.shape)} != {tuple(output.shape)}')
            if not t.is_contiguous():
                self._violate('mismatch',
                              'reduce_scatter input chunk not contiguous')
        fut = self._join(group, 'reduce_scatter', sig,
                         [t.detach().clone() for t in input_list], output,
                         poison_buf=False)
        if async_op:
            return Work(fut)
        self.wait_point(fut)
        return None

    def barrier(self, group=None, async_op=False, device_ids=None):
        fut = self._join(group, 'barrier', (), None, None)
        if async_op:
            return Work(fut)
        self.wait_point(fut)
        return None

    def all_gather_object(self, object_list, obj, group=None):
        g = self.group_of(group)
        if len(object_list) != len(g.ranks):
            self._violate('mismatch', 'all_gather_object list length '
                          f'{len(object_list)} != group size {len(g.ranks)}')
        import copy

        fut = self._join(group, 'all_gather_object', (len(object_list),),
                         copy.deepcopy(obj), object_list)
        self.wait_point(fut)
        return None

    def get_rank(self, group=None):
        g = self.group_of(group)
        r = _tls.rank
        if g is self.world_group:
            return r
        return g.ranks.index(r) if r in g.ranks else -1

    def get_world_size(self, group=None):
        g = self.group_of(group)
        if g is self.world_group:
            return self.n
        return len(g.ranks) if _tls.rank in g.ranks else -1


# ----------------------------------------------------------------- install
_orig = {}
_installed = False


def _dispatch(name):
    orig = getattr(dist, name)
    _orig[name] = orig

    def f(*a, **k):
        w = cur()
        if w is None or not w.initialized:
            return orig(*a, **k)
        return getattr(w, name)(*a, **k)

    f.__name__ = name
    return f


def install():
    """Replace the torch.distributed entry points (idempotent)."""
    global _installed
    if _installed:
        return
    _installed = True
    threading.stack_size(1024 * 1024)
    for name in ('all_reduce', 'broadcast', 'all_gather', 'reduce_scatter',
                 'barrier', 'all_gather_object', 'get_rank',
                 'get_world_size', 'new_group'):
        setattr(dist, name, _dispatch(name))
    o_init = dist.is_initialized
    _orig['is_initialized'] = o_init

    def is_initialized():
        w = cur()
        if w is None:
            return o_init()
        return w.initialized

    dist.is_initialized = is_initialized

    o_wait = torch._C.Future.wait
    _orig['wait'] = o_wait

    def wait(self):
        w = cur()
        if w is not None and getattr(_tls, 'is_rank', False):
            w.wait_point(self)
        return o_wait(self)

    torch._C.Future.wait = wait

    o_then = torch._C.Future.then
    _orig['then'] = o_then

    def then(self, cb):
        child = o_then(self, cb)
        w = cur()
        if w is not None:
            inst = w.lineage.get(id(self))
            if inst is not None:
                w.lineage[id(child)] = inst
                w._keep.append(child)
        return child

    torch._C.Future.then = then


# ------------------------------------------------------------- schedules
def sched_lowest(world, en):
    return en[0]


def sched_highest(world, en):
    rs = [t for t in en if t[0] == 'R']
    return rs[-1] if rs else en[0]


class RoundRobin:
    def __init__(self):
        self.last = -1

    def __call__(self, world, en):
        rs = [t for t in en if t[0] == 'R']
        if not rs:
            return en[0]
        for t in rs:
            if t[1] > self.last:
                self.last = t[1]
                return t
        self.last = rs[0][1]
        return rs[0]


class FromList:
    """Replay an explicit transition list, then lowest-first."""

    def __init__(self, seq):
        self.seq, self.i = list(seq), 0

    def __call__(self, world, en):
        if self.i < len(self.seq):
            t = tuple(self.seq[self.i])
            self.i += 1
            if t not in en:
                raise RuntimeError(
                    f'replay divergence at step {self.i - 1}: {t} not in '
                    f'{en}')
            return t
        return en[0]


FIXED_SCHEDULES = {
    'S0-lowest-eager': ('eager', lambda: sched_lowest),
    'S1-highest-eager': ('eager', lambda: sched_highest),
    'S2-roundrobin-eager': ('eager', RoundRobin),
    'S3-lowest-lazy-poison': ('lazy', lambda: sched_lowest),
}


def run_world(n, program, schedule='S0-lowest-eager', **kw):
    install()
    delivery, mk = FIXED_SCHEDULES[schedule]
    w = World(n, program, delivery=delivery, **kw)
    return w.run(mk())
