"""Deep digests of rank-local state (tensors, scalars, containers).

Futures are skipped (a rank cannot observe them without waiting, DESIGN 2.2
rule 2); process-group handles, modules' autograd graph and callables are
skipped as well.
"""
from __future__ import annotations

import hashlib

import torch


def _t(h, t: torch.Tensor):
    h.update(str(t.dtype).encode())
    h.update(repr(tuple(t.shape)).encode())
    if t.numel():
        c = t.detach().contiguous()
        if c.dtype == torch.bfloat16:
            c = c.to(torch.float32)
        h.update(c.cpu().numpy().tobytes())


def deep(h, o, depth=6, seen=None):
    if seen is None:
        seen = set()
    if o is None or isinstance(o, (bool, int, float, str, bytes)):
        h.update(repr(o).encode())
        return
    if isinstance(o, torch.Tensor):
        _t(h, o)
        return
    if isinstance(o, (torch.dtype, torch.Size)):
        h.update(repr(o).encode())
        return
    if isinstance(o, (torch._C.Future,)):
        h.update(b'<fut>')
        return
    if isinstance(o, torch.distributed.ProcessGroup) or callable(o) and not \
            isinstance(o, torch.nn.Module):
        h.update(b'<opaque>')
        return
    if id(o) in seen or depth <= 0:
        h.update(b'<rec>')
        return
    seen.add(id(o))
    if isinstance(o, dict):
        h.update(b'{')
        for k in o:
            h.update(repr(k).encode() if not isinstance(
                k, torch.nn.Module) else b'<mod>')
            deep(h, o[k], depth - 1, seen)
        h.update(b'}')
        return
    if isinstance(o, (list, tuple, set, frozenset)):
        h.update(b'[')
        for v in (sorted(o, key=repr) if isinstance(o, (set, frozenset))
                  else o):
            deep(h, v, depth - 1, seen)
        h.update(b']')
        return
    if isinstance(o, torch.nn.Module):
        for n, p in o.named_parameters(recurse=False):
            h.update(n.encode())
            _t(h, p)
            if p.grad is not None:
                _t(h, p.grad)
            else:
                h.update(b'nograd')
        for n, b in o.named_buffers(recurse=False):
            h.update(n.encode())
            _t(h, b)
        h.update(b'T' if o.training else b'E')
        return
    d = getattr(o, '__dict__', None)
    if d is not None:
        h.update(type(o).__name__.encode())
        for k in d:
            h.update(k.encode())
            deep(h, d[k], depth - 1, seen)
        return
    h.update(repr(type(o)).encode())


def digest(*objs, depth=7) -> bytes:
    h = hashlib.blake2b(digest_size=16)
    for o in objs:
        deep(h, o, depth)
    return h.digest()


def _tb(h, t):
    h.update(str(t.dtype).encode())
    h.update(repr(tuple(t.shape)).encode())
    if t.numel():
        h.update(t.detach().contiguous().reshape(-1).view(torch.uint8)
                 .numpy().tobytes())


def kfac_state(pre, extra_modules=(), tag=0) -> bytes:
    """Fast digest of everything a rank can observe of its K-FAC state
    (same content as digest(pre) but without the generic object walk)."""
    h = hashlib.blake2b(digest_size=16)
    h.update(repr((tag, pre._steps, sorted(pre._mini_steps.items()))
                  ).encode())
    for n in ('_damping', '_factor_decay', '_kl_clip', '_lr',
              '_factor_update_steps', '_inv_update_steps'):
        v = getattr(pre, n, None)
        h.update(b'<fn>' if callable(v) else repr(v).encode())

    def mod(m):
        for n, p in m.named_parameters(recurse=False):
            h.update(n.encode())
            _tb(h, p)
            if p.grad is not None:
                _tb(h, p.grad)
            else:
                h.update(b'nograd')
        for n, b in m.named_buffers(recurse=False):
            h.update(n.encode())
            _tb(h, b)
        h.update(b'T' if m.training else b'E')

    for m, (name, layer) in pre._layers.items():
        h.update(name.encode())
        for k, v in layer.__dict__.items():
            if isinstance(v, torch.Tensor):
                h.update(k.encode())
                _tb(h, v)
            elif isinstance(v, torch._C.Future):
                h.update(k.encode())
                h.update(b'<fut>')
            elif v is None or isinstance(v, (bool, int, float, str)):
                h.update(k.encode())
                h.update(repr(v).encode())
        mod(m)
    tdc = getattr(pre, '_tdc', None)
    if tdc is not None:
        for b in getattr(tdc, '_allreduce_buckets', {}).values():
            if b is not None:
                h.update(b'bucket')
                for t in getattr(b, '_tensors', []):
                    _tb(h, t)
    for m in extra_modules:
        mod(m)
    return h.digest()
