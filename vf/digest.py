"""Deep digests of rank-local state (tensors, scalars, containers).

Futures are skipped (a rank cannot observe them without waiting, DESIGN 2.2
rule 2); process-group handles, modules' autograd graph and callables are
skipped as well.
"""
from __future__ import annotations

import hashlib

import torch


def _t(h, t: torch.Tensor):
    h.update(str(t.dtype).encode())
    h.update(repr(tuple(t.shape)).encode())
    if t.numel():
        c = t.detach().contiguous()
        if c.dtype == torch.bfloat16:
            c = c.to(torch.float32)
        h.update(c.cpu().numpy().tobytes())


def deep(h, o, depth=6, seen=None):
    if seen is None:
        seen = set()
    if o is None or isinstance(o, (bool, int, float, str, bytes)):
        h.update(repr(o).encode())
        return
    if isinstance(o, torch.Tensor):
        _t(h, o)
        return
    if isinstance(o, (torch.dtype, torch.Size)):
        h.update(repr(o).encode())
        return
    if isinstance(o, (torch._C.Future,)):
        h.update(b'<fut>')
        return
    if isinstance(o, torch.distributed.ProcessGroup) or callable(o) and not \
            isinstance(o, torch.nn.Module):
        h.update(b'<opaque>')
        return
    if id(o) in seen or depth <= 0:
        h.update(b'<rec>')
        return
    seen.add(id(o))
    if isinstance(o, dict):
        h.update(b'{')
        for k in o:
            h.update(repr(k).encode() if not isinstance(
                k, torch.nn.Module) else b'<mod>')
            deep(h, o[k], depth - 1, seen)
        h.update(b'}')
        return
    if isinstance(o, (list, tuple, set, frozenset)):
        h.update(b'[')
        for v in (sorted(o, key=repr) if isinstance(o, (set, frozenset))
                  else o):
            deep(h, v, depth - 1, seen)
        h.update(b']')
        return
    if isinstance(o, torch.nn.Module):
        for n, p in o.named_parameters(recurse=False):
            h.update(n.encode())
            _t(h, p)
            if p.grad is not None:
                _t(h, p.grad)
            else:
                h.update(b'nograd')
        for n, b in o.named_buffers(recurse=False):
            h.update(n.encode())
            _t(h, b)
        h.update(b'T' if o.training else b'E')
        return
    d = getattr(o, '__dict__', None)
    if d is not None:
        h.update(type(o).__name__.encode())
        for k in d:
            h.update(k.encode())
            deep(h, d[k], depth - 1, seen)
        return
    h.update(repr(type(o)).encode())


def digest(*objs, depth=7) -> bytes:
    h = hashlib.blake2b(digest_size=16)
    for o in objs:
        deep(h, o, depth)
    return h.digest()
