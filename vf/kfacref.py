"""Reference K-FAC (float64, written from the property statements, does not
import kfac), deterministic models / data lattice, and K-FAC-free twins."""
from __future__ import annotations

import copy
import functools
import math
import zlib

import torch
import torch.nn.functional as F
from torch import nn

F64 = torch.float64
DT = {'f32': torch.float32, 'f64': torch.float64, 'bf16': torch.bfloat16,
      'f16': torch.float16}


# ------------------------------------------------------------------- data
def lattice(shape, *keys, seed=0, scale=8.0):
    """Small rationals in about [-2.3, 2.3] on a fixed lattice, indexed by
    keys (tensor role, rank, step, micro-batch, ...).  The key hash is a CRC
    and the modulus is prime so that every key component changes the data
    (an earlier linear scheme was degenerate in the rank component: 99 = 0
    mod 33 made all ranks see the same batch)."""
    n = 1
    for s in shape:
        n *= s
    k = zlib.crc32(repr((seed,) + tuple(int(v) for v in keys)).encode())
    a, b = k % 1009, (k >> 11) % 997
    idx = torch.arange(n, dtype=torch.int64)
    v = ((idx * 5 + (idx * idx) * 11 + a * (idx + 3) + b) % 37) - 18
    return (v.to(F64) / scale).reshape(shape)


def _selfcheck():
    base = lattice((6,), 1, 0, 0, 0)
    for keys in ((1, 1, 0, 0), (1, 0, 1, 0), (1, 0, 0, 1), (2, 0, 0, 0),
                 (1, 2, 0, 0), (1, 3, 0, 0)):
        assert not torch.equal(base, lattice((6,), *keys)), keys
    assert not torch.equal(base, lattice((6,), 1, 0, 0, 0, seed=1))


_selfcheck()


# ----------------------------------------------------------------- models
class Flat(nn.Module):
    def forward(self, x):
        return x.reshape(x.shape[0], -1)


class _Head(nn.Module):
    def __init__(self):
        super().__init__()
        self.fc = nn.Linear(3, 2)

    def forward(self, x):
        return self.fc(x)


class Nested(nn.Module):
    """Layer names 'fc' and 'head.fc' (one is a suffix of the other)."""

    def __init__(self):
        super().__init__()
        self.fc = nn.Linear(3, 3)
        self.act = nn.Tanh()
        self.head = _Head()

    def forward(self, x):
        return self.head(self.act(self.fc(x)))


class Gated(nn.Module):
    """A registered layer in the MIDDLE of the registration order whose
    gradient is exactly zero (not None): an auxiliary branch gated off."""

    def __init__(self):
        super().__init__()
        self.l1 = nn.Linear(3, 3)
        self.aux = nn.Linear(3, 3)
        self.l2 = nn.Linear(3, 2, bias=False)
        self.act = nn.Tanh()

    def forward(self, x):
        h = self.act(self.l1(x))
        h = h + 0.0 * self.aux(h)
        return self.l2(h)


class TwoHead(nn.Module):
    """Both heads run in every forward pass, only one of them (alternating)
    reaches the loss: inside an accumulation window of 2 each head sees two
    forward passes and one backward pass."""

    def __init__(self):
        super().__init__()
        self.trunk = nn.Linear(3, 3)
        self.act = nn.Tanh()
        self.h1 = nn.Linear(3, 2)
        self.h2 = nn.Linear(3, 2)
        self.calls = 0

    def forward(self, x):
        h = self.act(self.trunk(x))
        y1, y2 = self.h1(h), self.h2(h)
        self.calls += 1
        return y1 if self.calls % 2 else y2


def build_model(name, dtype=torch.float32, seed=0):
    if name == 'mlp3':
        m = nn.Sequential(nn.Linear(3, 4), nn.Tanh(), nn.Linear(4, 2),
                          nn.Tanh(), nn.Linear(2, 3, bias=False))
    elif name == 'mlp2':
        m = nn.Sequential(nn.Linear(3, 2), nn.Tanh(), nn.Linear(2, 2))
    elif name == 'lin1':
        m = nn.Sequential(nn.Linear(3, 2))
    elif name == 'sq':      # in+bias == out: transposition keeps shapes
        m = nn.Sequential(nn.Linear(2, 3), nn.Tanh(), nn.Linear(3, 3,
                                                                bias=False))
    elif name == 'conv':
        m = nn.Sequential(nn.Conv2d(1, 2, (2, 2), stride=1, padding=(1, 0)),
                          nn.Tanh(), Flat(), nn.Linear(2 * 4 * 2, 2))
    elif name == 'convsq':  # conv: in*kh*kw + bias == out (4+1 ... 3x? )
        m = nn.Sequential(nn.Conv2d(2, 3, (1, 1), bias=True), nn.Tanh(),
                          nn.Conv2d(3, 2, (2, 1), stride=(2, 1), bias=False),
                          Flat(), nn.Linear(2 * 1 * 3, 2))
    elif name == 'seq3d':   # N-d linear inputs
        m = nn.Sequential(nn.Linear(3, 3), nn.Tanh(), nn.Linear(3, 2))
    elif name == 'nbfirst':  # bias-free layer registered before a biased one
        m = nn.Sequential(nn.Linear(3, 3, bias=False), nn.Tanh(),
                          nn.Linear(3, 2), nn.Tanh(),
                          nn.Linear(2, 2, bias=False))
    elif name == 'nested':
        m = Nested()
    elif name == 'wide':    # rank-deficient batches, indefinite bf16 factors
        m = nn.Sequential(nn.Linear(12, 10), nn.Tanh(),
                          nn.Linear(10, 8, bias=False))
    elif name == 'gated':
        m = Gated()
    elif name == 'twohead':
        m = TwoHead()
    elif name == 'mixed':   # registered + unregistered parameters
        m = nn.Sequential(nn.Linear(3, 4), nn.LayerNorm(4), nn.Tanh(),
                          nn.Linear(4, 2))
    else:
        raise KeyError(name)
    m = m.to(dtype)
    with torch.no_grad():
        for i, p in enumerate(m.parameters()):
            p.copy_((lattice(tuple(p.shape), 10 + i, seed=seed) / 2
                     ).to(dtype))
    return m


def input_shape(name, batch):
    return {
        'mlp3': (batch, 3), 'mlp2': (batch, 3), 'lin1': (batch, 3),
        'sq': (batch, 2), 'conv': (batch, 1, 3, 3),
        'convsq': (batch, 2, 2, 3), 'seq3d': (batch, 2, 3),
        'mixed': (batch, 3), 'wide': (batch, 12), 'nbfirst': (batch, 3), 'nested': (batch, 3), 'gated': (batch, 3), 'twohead': (batch, 3),
    }[name]


def batch_for(name, batch, dtype, rank, step, mb, seed=0):
    x = lattice(input_shape(name, batch), 1, rank, step, mb, seed=seed)
    return x.to(dtype)


def loss_fn(out, rank, step, mb, seed=0):
    y = lattice(tuple(out.shape), 2, rank, step, mb, seed=seed).to(out.dtype)
    return ((out - y) ** 2).mean()


def eligible(model):
    """(name, module) of K-FAC eligible leaves (no skip patterns)."""
    out = []
    for n, m in model.named_modules():
        if len(list(m.children())) == 0 and isinstance(
                m, (nn.Linear, nn.Conv2d)) and all(
                p.requires_grad for p in m.parameters()):
            out.append((n, m))
    return out


def factor_dims(model):
    """name -> (n_a, n_g, grad numel) from the module shapes."""
    out = {}
    for n, m in eligible(model):
        w = m.weight
        na = w[0].numel() + (1 if m.bias is not None else 0)
        ng = w.shape[0]
        out[n] = (na, ng, ng * na)
    return out


# ------------------------------------------------------------------ twins
class Twin:
    """K-FAC-free copy of a model that captures layer inputs and output
    gradients (for the reference moments)."""

    def __init__(self, model):
        self.model = copy.deepcopy(model)
        self.cap = {}  # name -> {'a': [...], 'g': [...]}
        self.on = True
        for name, mod in eligible(self.model):
            self.cap[name] = {'a': [], 'g': []}
            mod.register_forward_pre_hook(
                functools.partial(self._fwd, name))
            mod.register_full_backward_hook(
                functools.partial(self._bwd, name))

    # hooks are partials of bound methods so that deepcopy re-binds them
    def _fwd(self, name, mod, inp):
        if self.on and mod.training:
            self.cap[name]['a'].append(inp[0].detach().clone())

    def _bwd(self, name, mod, gin, gout):
        if self.on and mod.training:
            self.cap[name]['g'].append(gout[0].detach().clone())

    def clear(self):
        for c in self.cap.values():
            c['a'].clear()
            c['g'].clear()


def moment_a(mod, a):
    a = a.to(F64)
    if isinstance(mod, nn.Conv2d):
        unf = F.unfold(a, mod.kernel_size, padding=mod.padding,
                       stride=mod.stride)
        L = unf.shape[2]
        rows = unf.transpose(1, 2).reshape(-1, unf.shape[1])
        if mod.bias is not None:
            rows = torch.cat([rows, torch.ones(rows.shape[0], 1, dtype=F64)],
                             1)
        rows = rows / L
    else:
        rows = a.reshape(-1, a.shape[-1])
        if mod.bias is not None:
            rows = torch.cat([rows, torch.ones(rows.shape[0], 1, dtype=F64)],
                             1)
    return rows.t() @ rows / rows.shape[0]


def moment_g(mod, g):
    g = g.to(F64)
    if isinstance(mod, nn.Conv2d):
        L = g.shape[2] * g.shape[3]
        rows = g.reshape(g.shape[0], g.shape[1], L).transpose(1, 2).reshape(
            -1, g.shape[1]) / L
    else:
        rows = g.reshape(-1, g.shape[-1])
    return rows.t() @ rows / rows.shape[0]


def combined_grad(mod):
    """(out, in [+1]) combined gradient in float64, independent layout."""
    w = mod.weight.grad.detach().to(F64)
    w = w.reshape(w.shape[0], -1)
    if mod.bias is not None:
        w = torch.cat([w, mod.bias.grad.detach().to(F64).reshape(-1, 1)], 1)
    return w


# -------------------------------------------------------------- reference
def psd_eig(M):
    d, Q = torch.linalg.eigh((M + M.t()) / 2)
    return torch.clamp(d, min=0.0), Q


def solve_inverse(A, G, D, lam):
    n, m = G.shape[0], A.shape[0]
    return torch.linalg.solve(G + lam * torch.eye(n, dtype=F64), D) @ \
        torch.linalg.inv(A + lam * torch.eye(m, dtype=F64))


def solve_eigen(A, G, D, lam):
    da, Qa = psd_eig(A)
    dg, Qg = psd_eig(G)
    return Qg @ ((Qg.t() @ D @ Qa) / (torch.outer(dg, da) + lam)) @ Qa.t()


def residual(method, A, G, V, D, lam):
    """Relative residual of the defining system and its condition number."""
    if method == 'inverse':
        n, m = G.shape[0], A.shape[0]
        GL = G + lam * torch.eye(n, dtype=F64)
        AL = A + lam * torch.eye(m, dtype=F64)
        R = GL @ V @ AL - D
        nrm = torch.linalg.matrix_norm(GL, 2) * torch.linalg.matrix_norm(
            AL, 2)
        kappa = (nrm / (lam * lam)).item()
    else:
        da, Qa = psd_eig(A)
        dg, Qg = psd_eig(G)
        Ap = Qa @ torch.diag(da) @ Qa.t()
        Gp = Qg @ torch.diag(dg) @ Qg.t()
        R = Gp @ V @ Ap + lam * V - D
        kappa = ((dg.max() * da.max() + lam) / lam).item()
    dn = D.norm().item()
    return (R.norm().item() / dn if dn > 0 else R.norm().item()), kappa


def hp(v, step):
    return v(step) if callable(v) else v


def nu_of(kl, lr, pairs):
    """C07: nu = min(1, sqrt(kl / |sum <V,D> lr^2|)); 1 if the sum is 0."""
    if kl is None:
        return 1.0
    s = sum((V * D).sum().item() * lr ** 2 for V, D in pairs)
    if s == 0.0:
        return 1.0
    return min(1.0, math.sqrt(kl / abs(s)))


class RefKFAC:
    """The K-FAC state machine of C04/C05/C01/C07/C09 in float64."""

    def __init__(self, layers, *, method, fus=1, ius=1, damping=0.001,
                 decay=0.95, kl_clip=0.001, lr=0.1):
        self.layers = list(layers)  # names
        self.method = method  # 'inverse' | 'eigen' | 'eigen_prediv'
        self.fus, self.ius = fus, ius
        self.damping, self.decay = damping, decay
        self.kl_clip, self.lr = kl_clip, lr
        self.steps = 0
        self.A = {n: None for n in self.layers}
        self.G = {n: None for n in self.layers}
        self.so = {n: None for n in self.layers}  # (A, G, damping at refresh)

    def is_factor_step(self):
        return self.steps % hp(self.fus, self.steps) == 0

    def is_inv_step(self):
        return self.steps % hp(self.ius, self.steps) == 0

    def update_factors(self, moments):
        """moments: name -> (M_A, M_G) (already averaged over micro-batches
        and ranks).  Call only on factor-update steps."""
        a = hp(self.decay, self.steps)
        for n, (MA, MG) in moments.items():
            if self.A[n] is None:
                self.A[n] = torch.eye(MA.shape[0], dtype=F64)
            if self.G[n] is None:
                self.G[n] = torch.eye(MG.shape[0], dtype=F64)
            self.A[n] = a * self.A[n] + (1 - a) * MA
            self.G[n] = a * self.G[n] + (1 - a) * MG

    def refresh(self):
        lam = hp(self.damping, self.steps)
        for n in self.layers:
            self.so[n] = (self.A[n].clone(), self.G[n].clone(), lam)

    def precondition(self, grads):
        """grads: name -> D.  Returns name -> nu*V, and nu."""
        lam_now = hp(self.damping, self.steps)
        V = {}
        for n, D in grads.items():
            A, G, lam0 = self.so[n]
            if self.method == 'inverse':
                V[n] = solve_inverse(A, G, D, lam0)
            elif self.method == 'eigen_prediv':
                V[n] = solve_eigen(A, G, D, lam0)
            else:
                V[n] = solve_eigen(A, G, D, lam_now)
        nu = nu_of(hp(self.kl_clip, self.steps), hp(self.lr, self.steps),
                   [(V[n], grads[n]) for n in grads])
        return {n: nu * V[n] for n in V}, nu

    def step(self, moments, grads):
        if self.is_factor_step():
            self.update_factors(moments)
        if self.is_inv_step():
            self.refresh()
        out, nu = self.precondition(grads)
        self.steps += 1
        return out, nu

    # -- checkpoints (C09) --
    def state(self, include_factors=True):
        st = {'steps': self.steps}
        if include_factors:
            st['A'] = {n: None if v is None else v.clone()
                       for n, v in self.A.items()}
            st['G'] = {n: None if v is None else v.clone()
                       for n, v in self.G.items()}
        return st

    def load(self, st, compute_inverses=True):
        """Into a *fresh* reference object."""
        self.steps = st['steps']
        if 'A' in st:
            self.A = {n: None if v is None else v.clone()
                      for n, v in st['A'].items()}
            self.G = {n: None if v is None else v.clone()
                      for n, v in st['G'].items()}
            if compute_inverses and all(v is not None
                                        for v in self.A.values()):
                self.refresh()
