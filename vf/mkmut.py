"""python3 -m vf.mkmut PID name file <<< 'OLD\n=====\nNEW'  -> mutants/PID/name.diff"""
import difflib
import os
import sys

pid, name, rel = sys.argv[1:4]
src = open(os.path.join('/repo', rel)).read()
dst = src
for pair in sys.stdin.read().split('\n#####\n'):
    old, new = pair.split('\n=====\n')
    new = new.rstrip('\n')
    old = old.rstrip('\n')
    if dst.count(old) != 1:
        sys.exit(f'OLD occurs {dst.count(old)} times in {rel}: {old[:60]}')
    dst = dst.replace(old, new)
d = ''.join(difflib.unified_diff(
    src.splitlines(True), dst.splitlines(True), f'a/{rel}', f'b/{rel}'))
out = os.path.join(os.path.dirname(os.path.dirname(os.path.abspath(__file__))),
                   'mutants', pid)
os.makedirs(out, exist_ok=True)
open(os.path.join(out, name + '.diff'), 'w').write(d)
print(d)
