"""GPT-NeoX environment: DeepSpeed / Megatron stand-ins over simdist.

* deepspeed.runtime.pipe.topology.PipeModelDataParallelTopology and
  deepspeed.pipe.PipelineModule are re-implemented (about 60 lines) and put
  into sys.modules BEFORE kfac.gpt_neox is imported;
* ColumnParallelLinear / RowParallelLinear implement Megatron's semantics
  with autograd functions over torch.distributed (i.e. simdist) collectives.
These stand-ins are part of the trusted base of C11, C12, C18.
"""
from __future__ import annotations

import collections
import itertools
import sys
import types

import torch
import torch.distributed as dist
from torch import nn

from vf import kfacref as R

F64 = torch.float64


# ------------------------------------------------------------- deepspeed
class ProcessTopology:
    def __init__(self, axes, dims):
        self.axes, self.dims = list(axes), list(dims)
        self.ProcessCoord = collections.namedtuple('ProcessCoord', axes)
        self.mapping = {}
        for rank, coord in enumerate(itertools.product(
                *[range(d) for d in dims])):
            self.mapping[self.ProcessCoord(*coord)] = rank

    def get_dim(self, axis):
        return self.dims[self.axes.index(axis)] if axis in self.axes else 0

    def world_size(self):
        return len(self.mapping)

    def get_coord(self, rank):
        for c, r in self.mapping.items():
            if r == rank:
                return c
        raise ValueError(f'rank {rank} not found in topology.')

    def get_rank(self, **kw):
        return self.mapping[self.ProcessCoord(**kw)]

    def get_axis_comm_lists(self, axis):
        if axis not in self.axes:
            return []
        other = [a for a in self.axes if a != axis]
        lists = []
        for coord in itertools.product(*[range(self.get_dim(a))
                                         for a in other]):
            keys = dict(zip(other, coord))
            lists.append([self.mapping[self.ProcessCoord(**keys,
                                                         **{axis: i})]
                          for i in range(self.get_dim(axis))])
        return lists


class PipeModelDataParallelTopology(ProcessTopology):
    def __init__(self, num_pp, num_mp, num_dp):
        super().__init__(axes=['pipe', 'data', 'model'],
                         dims=[num_pp, num_dp, num_mp])


class PipelineModule(nn.Module):
    """Layers are registered under DeepSpeed-like index names chosen so
    that one K-FAC layer name is a suffix of another ('1', '11', '21')."""

    NAMES = ['1', 'a1x', '11', 'a2x', '21']

    def __init__(self, layers, topology, prefix=''):
        super().__init__()
        self._order = []
        # prefix: layer names are global in DeepSpeed, so another pipeline
        # stage carries other names
        for name, mod in zip([prefix + n for n in self.NAMES], layers):
            self.add_module(name, mod)
            self._order.append(name)
        self._topo = topology

    def topology(self):
        return self._topo

    def forward(self, x):
        for name in self._order:
            x = getattr(self, name)(x)
        return x


def install():
    if 'deepspeed' in sys.modules and getattr(
            sys.modules['deepspeed'], '_vf_standin', False):
        return
    ds = types.ModuleType('deepspeed')
    ds._vf_standin = True
    pipe = types.ModuleType('deepspeed.pipe')
    pipe.PipelineModule = PipelineModule
    rt = types.ModuleType('deepspeed.runtime')
    rtp = types.ModuleType('deepspeed.runtime.pipe')
    topo = types.ModuleType('deepspeed.runtime.pipe.topology')
    topo.PipeModelDataParallelTopology = PipeModelDataParallelTopology
    topo.ProcessTopology = ProcessTopology
    ds.pipe, ds.runtime, rt.pipe, rtp.topology = pipe, rt, rtp, topo
    sys.modules.update({
        'deepspeed': ds, 'deepspeed.pipe': pipe, 'deepspeed.runtime': rt,
        'deepspeed.runtime.pipe': rtp,
        'deepspeed.runtime.pipe.topology': topo})
    for m in [k for k in sys.modules if k.startswith('kfac.gpt_neox')]:
        del sys.modules[m]


# ---------------------------------------------------------------- megatron
class _CopyToMP(torch.autograd.Function):
    @staticmethod
    def forward(ctx, x, group):
        ctx.group = group
        return x.clone()

    @staticmethod
    def backward(ctx, g):
        g = g.contiguous().clone()
        if ctx.group is not None and dist.get_world_size(ctx.group) > 1:
            dist.all_reduce(g, group=ctx.group)
        return g, None


class _ReduceFromMP(torch.autograd.Function):
    @staticmethod
    def forward(ctx, x, group):
        x = x.contiguous().clone()
        if group is not None and dist.get_world_size(group) > 1:
            dist.all_reduce(x, group=group)
        return x

    @staticmethod
    def backward(ctx, g):
        return g, None


class ColumnParallelLinear(nn.Module):
    """Replicated input; weight and bias sharded on the output dimension;
    output left sharded."""

    def __init__(self, fin, fout_shard, bias, group):
        super().__init__()
        self.weight = nn.Parameter(torch.zeros(fout_shard, fin))
        self.bias = nn.Parameter(torch.zeros(fout_shard)) if bias else None
        self.group = group

    def forward(self, x):
        x = _CopyToMP.apply(x, self.group)
        return torch.nn.functional.linear(x, self.weight, self.bias)


class RowParallelLinear(nn.Module):
    """Input sharded on the last dimension; weight sharded on the input
    dimension; partial products all-reduced; replicated bias added after."""

    def __init__(self, fin_shard, fout, bias, group):
        super().__init__()
        self.weight = nn.Parameter(torch.zeros(fout, fin_shard))
        self.bias = nn.Parameter(torch.zeros(fout)) if bias else None
        self.group = group

    def forward(self, x):
        y = torch.nn.functional.linear(x, self.weight)
        y = _ReduceFromMP.apply(y, self.group)
        return y if self.bias is None else y + self.bias


# ------------------------------------------------------------------ models
SIZES = {'gpt2l': (4, 6, 2),       # H -> H2 (column) -> H3 (row)
         # ... -> H4 (column, output sharded); first and last layer have
         # identical shard shapes on purpose
         'gpt3l': (4, 6, 4, 6)}


def full_model(name, bias, dtype=torch.float32, seed=0):
    """The unsharded twin: Linear(H,H2) -> Tanh -> Linear(H2,H3)."""
    h, h2, h3 = SIZES[name][:3]
    mods = [nn.Linear(h, h2, bias=bias), nn.Tanh(),
            nn.Linear(h2, h3, bias=bias)]
    if name == 'gpt3l':
        mods += [nn.Tanh(), nn.Linear(h3, SIZES[name][3], bias=bias)]
    m = nn.Sequential(*mods).to(dtype)
    with torch.no_grad():
        for i, p in enumerate(m.parameters()):
            p.copy_((R.lattice(tuple(p.shape), 10 + i, seed=seed) / 2
                     ).to(dtype))
    return m


def shard_model(name, bias, mp, mp_rank, group, dtype=torch.float32, seed=0):
    full = full_model(name, bias, dtype, seed)
    h, h2, h3 = SIZES[name][:3]
    assert h2 % mp == 0
    s = h2 // mp
    col = ColumnParallelLinear(h, s, bias, group)
    row = RowParallelLinear(s, h3, bias, group)
    with torch.no_grad():
        col.weight.copy_(full[0].weight[mp_rank * s:(mp_rank + 1) * s])
        row.weight.copy_(full[2].weight[:, mp_rank * s:(mp_rank + 1) * s])
        if bias:
            col.bias.copy_(full[0].bias[mp_rank * s:(mp_rank + 1) * s])
            row.bias.copy_(full[2].bias)
    mods = [col, nn.Tanh(), row]
    if name == 'gpt3l':
        h4 = SIZES[name][3]
        assert h4 % mp == 0
        s4 = h4 // mp
        col2 = ColumnParallelLinear(h3, s4, bias, group)
        with torch.no_grad():
            col2.weight.copy_(full[4].weight[mp_rank * s4:(mp_rank + 1) * s4])
            if bias:
                col2.bias.copy_(full[4].bias[mp_rank * s4:(mp_rank + 1) * s4])
        mods += [nn.Tanh(), col2]
    return nn.Sequential(*mods).to(dtype)


def register_ref_models():
    """Make the unsharded twins available to kfacref.build_model."""
    if getattr(R, '_gpt_registered', False):
        return
    R._gpt_registered = True
    orig_build, orig_shape = R.build_model, R.input_shape

    def build_model(name, dtype=torch.float32, seed=0):
        if name.startswith('gpt'):
            base = name.split('@')[0]
            return full_model(base[:5], not base.endswith('-nb'), dtype,
                              seed)
        return orig_build(name, dtype, seed)

    def input_shape(name, batch):
        if name.startswith('gpt'):
            # 'gpt2l@3': (batch, seq=3, hidden) activations
            seq = int(name.split('@')[1]) if '@' in name else 0
            h = SIZES[name[:5]][0]
            return (batch, seq, h) if seq else (batch, h)
        return orig_shape(name, batch)

    R.build_model, R.input_shape = build_model, input_shape


def shard_of(full, layer, kind, mp, mp_rank, has_bias):
    """Shard of a combined (out, in[+1]) reference gradient -> (weight
    shard, bias shard or None) for layer 0 (column) / 2 (row)."""
    if has_bias:
        w, b = full[:, :-1], full[:, -1]
    else:
        w, b = full, None
    if kind == 'column':
        s = w.shape[0] // mp
        return (w[mp_rank * s:(mp_rank + 1) * s],
                None if b is None else b[mp_rank * s:(mp_rank + 1) * s])
    s = w.shape[1] // mp
    return w[:, mp_rank * s:(mp_rank + 1) * s], b
