"""Runner core: evidence, violations, known findings, tree identity, pmap."""
from __future__ import annotations

import fnmatch
import hashlib
import json
import multiprocessing as mp
import os
import subprocess
import sys
import time
import traceback

VERIF = os.path.dirname(os.path.dirname(os.path.abspath(__file__)))
REPO = os.environ.get('VERIF_REPO', '/repo')
EVIDENCE_DIR = os.environ.get('VERIF_EVIDENCE_DIR',
                              os.path.join(VERIF, 'evidence'))
REPLAY_DIR = os.path.join(VERIF, 'replays')
KNOWN = os.path.join(VERIF, 'known_findings.json')


def bind_repo() -> str:
    """Make `import kfac` resolve to REPO's working tree and verify it."""
    if REPO not in sys.path:
        sys.path.insert(0, REPO)
    import warnings

    warnings.filterwarnings('ignore')
    import kfac  # noqa

    f = os.path.realpath(kfac.__file__)
    if not f.startswith(os.path.realpath(REPO) + os.sep):
        print(f'HARNESS-ERROR: kfac imported from {f}, expected {REPO}')
        sys.exit(2)
    return f


def tree_identity() -> dict:
    def git(*a):
        try:
            return subprocess.run(
                ['git', '-C', REPO, *a], capture_output=True, text=True,
                timeout=30,
            ).stdout
        except Exception:  # pragma: no cover
            return ''

    head = git('rev-parse', 'HEAD').strip()
    diff = git('diff', 'HEAD', '--', 'kfac')
    return {
        'repo': REPO,
        'head': head,
        'diff_sha1': hashlib.sha1(diff.encode()).hexdigest() if diff else '',
    }


def jsonable(x):
    """Best-effort conversion for samples / replay files."""
    import torch

    if isinstance(x, dict):
        return {str(k): jsonable(v) for k, v in x.items()}
    if isinstance(x, (list, tuple, set, frozenset)):
        return [jsonable(v) for v in x]
    if isinstance(x, torch.Tensor):
        return x.detach().to(torch.float64).tolist()
    if isinstance(x, (torch.dtype, torch.Size)):
        return str(x)
    if isinstance(x, (int, float, str, bool)) or x is None:
        return x
    return repr(x)


class Run:
    """Accumulates what one check run covered and what it found."""

    def __init__(self, pid: str, tier: str, seed: int, level='model_checking'):
        self.pid, self.tier, self.seed, self.level = pid, tier, seed, level
        self.t0 = time.time()
        self.c: dict[str, int] = {}
        self.samples: list = []
        self.distinct: dict[str, set] = {}
        self.viol: list[dict] = []  # unexplained violations
        self.known_hit: dict[str, int] = {}
        self.notes: dict = {}
        self.assumptions: list[str] = []
        self.caps: list[str] = []
        self.exhaustive = True
        self.mx = {}
        self.rule = ''
        kf = json.load(open(KNOWN)) if os.path.exists(KNOWN) else {}
        self.known = [
            f for f in kf.get('findings', []) if f['property'] == pid
        ]

    # -- coverage ----------------------------------------------------------
    def count(self, key: str, n: int = 1) -> None:
        self.c[key] = self.c.get(key, 0) + n

    def sample(self, obj, limit: int = 6) -> None:
        if len(self.samples) < limit:
            self.samples.append(jsonable(obj))

    def seen(self, cls: str, key) -> bool:
        """Record a distinct item; return True if it was new."""
        s = self.distinct.setdefault(cls, set())
        if key in s:
            return False
        s.add(key)
        return True

    def cap(self, what: str) -> None:
        self.exhaustive = False
        if what not in self.caps:
            self.caps.append(what)

    # -- violations --------------------------------------------------------
    def violation(self, key: str, what: str, detail=None) -> None:
        """Report one violation. `key` identifies the failing case."""
        for f in self.known:
            if fnmatch.fnmatchcase(key, f['key']):
                self.known_hit[f['key']] = self.known_hit.get(f['key'], 0) + 1
                return
        if len(self.viol) < 50:
            self.viol.append({'key': key, 'what': what,
                              'detail': jsonable(detail)})
        else:
            self.count('violations_not_listed')

    def merge(self, part: dict) -> None:
        """Merge the dict returned by a worker (see `Part`)."""
        for k, v in part.get('c', {}).items():
            self.count(k, v)
        for s in part.get('samples', []):
            self.sample(s)
        for cls, keys in part.get('distinct', {}).items():
            for k in keys:
                self.seen(cls, k)
        for v in part.get('viol', []):
            self.violation(v['key'], v['what'], v.get('detail'))
        for c in part.get('caps', []):
            self.cap(c)
        for k, v in part.get('mx', {}).items():
            if v > self.mx.get(k, float('-inf')):
                self.mx[k] = v

    # -- finish ------------------------------------------------------------
    def finish(self) -> int:
        wall = time.time() - self.t0
        os.makedirs(EVIDENCE_DIR, exist_ok=True)
        os.makedirs(REPLAY_DIR, exist_ok=True)
        for f in self.known:
            n = self.known_hit.get(f['key'], 0)
            if n:
                print(f"KNOWN-FINDING: property={self.pid} {f['what']} "
                      f"[key={f['key']} hits={n}]")
        paths = []
        for v in self.viol:
            h = hashlib.sha1(
                (self.pid + v['key']).encode()).hexdigest()[:10]
            p = os.path.join(REPLAY_DIR, f'{self.pid}-{h}.json')
            with open(p, 'w') as fh:
                json.dump({'property': self.pid, 'tier': self.tier,
                           'seed': self.seed, **v}, fh, indent=1)
            paths.append(p)
            print(f"  violation: {v['key']}: {v['what']}")
            print(f'VIOLATION property={self.pid} replay={p}')
        cov = dict(self.c)
        states = cov.get('states', 0)
        trans = cov.get('transitions', 0)
        evals = cov.get('evaluations', cov.get('executions', 0))
        dn = max((len(s) for s in self.distinct.values()), default=0)
        dn_cls = {k: len(v) for k, v in self.distinct.items()}
        coverage = {
            **cov,
            'states': max(states, 1) if evals else states,
            'transitions': max(trans, 1) if evals else trans,
            'traces_validated_against_impl': cov.get(
                'traces_validated_against_impl', evals),
            'evaluations': evals,
            'distinct_nontrivial': cov.get('distinct_nontrivial', dn),
            'distinct_by_class': dn_cls,
            'rule': self.rule,
            'samples': self.samples or ['(no sample recorded)'],
            'exhaustive': bool(self.exhaustive),
            'caps_hit': self.caps,
            'known_findings_hit': self.known_hit,
            'max_stats': {k: float(f'{v:.4g}') for k, v in self.mx.items()},
            'tree': tree_identity(),
            **self.notes,
        }
        ev = {
            'property_id': self.pid,
            'tier': self.tier,
            'seed': self.seed,
            'level': self.level,
            'coverage': coverage,
            'assumptions': self.assumptions,
            'wall_s': round(wall, 2),
            'violations': len(self.viol) + cov.get('violations_not_listed', 0),
        }
        with open(os.path.join(EVIDENCE_DIR, f'{self.pid}.json'), 'w') as fh:
            json.dump(ev, fh, indent=1)
        brief = {k: v for k, v in cov.items()}
        print(f'{self.pid} tier={self.tier} seed={self.seed} '
              f'wall={wall:.1f}s violations={len(self.viol)} '
              f'known={sum(self.known_hit.values())} {brief} '
              f'distinct={dn_cls}')
        return 1 if self.viol else 0


class Part:
    """Picklable accumulator used inside pool workers."""

    def __init__(self):
        self.c, self.samples, self.distinct = {}, [], {}
        self.viol, self.caps = [], []
        self.mx = {}

    def maxstat(self, key, value):
        if value == value and value > self.mx.get(key, float('-inf')):
            self.mx[key] = value

    def count(self, key, n=1):
        self.c[key] = self.c.get(key, 0) + n

    def sample(self, obj, limit=3):
        if len(self.samples) < limit:
            self.samples.append(jsonable(obj))

    def seen(self, cls, key):
        s = self.distinct.setdefault(cls, set())
        if key in s:
            return False
        s.add(key)
        return True

    def cap(self, what):
        if what not in self.caps:
            self.caps.append(what)

    def violation(self, key, what, detail=None):
        if len(self.viol) < 20:
            self.viol.append({'key': key, 'what': what,
                              'detail': jsonable(detail)})

    def dump(self):
        return {'c': self.c, 'samples': self.samples,
                'distinct': {k: list(v) for k, v in self.distinct.items()},
                'viol': self.viol, 'caps': self.caps, 'mx': self.mx}


def _worker(args):
    func, chunk = args
    import torch

    torch.set_num_threads(1)
    part = Part()
    for item in chunk:
        try:
            func(part, item)
        except BaseException as e:  # harness error inside a worker
            part.violation(
                f'harness-error:{type(e).__name__}',
                f'harness raised on item {item!r}: {e}',
                traceback.format_exc(),
            )
            part.count('harness_errors')
    return part.dump()


def pmap(run: Run, func, items, procs: int | None = None, chunk: int = 0,
         weight=None):
    """Run func(part, item) for all items on a fork pool; merge into run.

    weight(item) -> relative cost; heavy items are scheduled first and
    chunks are balanced by weight."""
    items = list(items)
    if not items:
        return
    procs = procs or min(16, os.cpu_count() or 1)
    procs = int(os.environ.get('VERIF_PROCS', procs))
    if weight is not None:
        ws = [(weight(it), i) for i, it in enumerate(items)]
        ws.sort(key=lambda x: (-x[0], x[1]))
        target = sum(w for w, _ in ws) / (procs * 12)
        chunks, curc, curw = [], [], 0.0
        for w, i in ws:
            curc.append(items[i])
            curw += w
            if curw >= target or len(curc) >= 256:
                chunks.append(curc)
                curc, curw = [], 0.0
        if curc:
            chunks.append(curc)
    else:
        if chunk <= 0:
            chunk = max(1, min(64, len(items) // (procs * 8) or 1))
        chunks = [items[i:i + chunk] for i in range(0, len(items), chunk)]
    if procs == 1 or len(chunks) == 1:
        for ch in chunks:
            run.merge(_worker((func, ch)))
        return
    ctx = mp.get_context('fork')
    with ctx.Pool(procs) as pool:
        for part in pool.imap_unordered(_worker, [(func, c) for c in chunks]):
            run.merge(part)
