"""Generates /verif/MANIFEST.json from the table below (python3 -m vf.manifest)."""
from __future__ import annotations

import json
import os

VERIF = os.path.dirname(os.path.dirname(os.path.abspath(__file__)))

ALL = [f'C{i:02d}' for i in range(1, 21)]

# pid -> (technique, level text, level note, design ref)
CHECKS = {
    'C08': (
        'explicit-state exploration of the real communicator under a '
        'controlled scheduler (exhaustive rank interleavings and completion '
        'times) + bounded-exhaustive operation sequences vs reference sum',
        'Every sequence of <=3 allreduce_bucketed/flush operations over a '
        'finite alphabet of tensors, groups, flags and capacities is run on '
        'the real TorchDistributedCommunicator in simulated worlds of 2-4 '
        'ranks and compared bit-exactly with direct summation and with the '
        'unbucketed allreduce; small programs are explored over all '
        'interleavings and completion times (at operation boundaries), and '
        'over all schedules with <=1 (quick) / <=2 (thorough) deviations in '
        'which a completion - whose callbacks run on another thread in real '
        'backends - lands between any two lines of kfac/distributed.py.',
        'simdist (per-group FIFO collective matching, CPU tensors) stands in '
        'for gloo/NCCL; values are position-revealing integers only; '
        'sequences longer than 3 operations are not explored.',
        '3/C08'),
    'C14': (
        'bounded-exhaustive enumeration of sizes/dtypes/layouts on the real '
        'pack/unpack code + explicit-state exploration of symmetric vs dense '
        'collectives in simulated worlds',
        'fill_triu(get_triu(x)) is compared bitwise with x for every n up to '
        'the bound, 4 floating dtypes, 3 memory layouts and 4 position-/'
        'exponent-revealing symmetric patterns; symmetric allreduce / '
        'bucketed allreduce / broadcast are compared with their dense '
        'counterparts in simulated worlds (fixed schedules + exhaustive '
        'interleavings of small programs); every non-square / non-2-D shape '
        'with <=3 dims of extent <=3 must raise NonSquareTensorError with an '
        'empty collective trace on every rank.',
        'n bounded (every n <= 96 quick / 512 thorough, plus sizes around '
        'powers of two up to 1025 / 4096); contents from a finite '
        'catalogue; simdist stands in for gloo/NCCL.',
        '3/C14'),
    'C17': (
        'bounded-exhaustive enumeration of all inputs in a finite box '
        '(all set partitions x all small cost dictionaries) against a '
        'brute-force greedy-consistency oracle',
        'Every set partition of worlds up to 5 (quick) / 6 (thorough) x '
        'every cost dictionary with <=3 layers, <=3 factors, costs in a '
        'small alphabet (plus a wide-range catalogue) x colocate on/off is '
        'fed to the real greedy_assignment; completeness, group '
        'confinement, producibility by SOME least-loaded greedy run, both '
        'balance bounds, purity over depth-2 call histories and argument '
        'immutability are checked on each.',
        'cost values outside the alphabets (small integers, a wide-range '
        'catalogue, 2^24+i) are not explored; worlds > 6 not explored; '
        'hash-seed independence is checked in 4 separate interpreters.',
        '3/C17'),
    'C06': (
        'bounded-exhaustive enumeration of (world, divisor, rank, colocate, '
        'cost dictionary) on the real KAISAAssignment / KFACPreconditioner '
        'against an arithmetic grid reference, plus cross-process '
        'determinism under different hash seeds',
        'For every world size up to 128 (quick) / 512 (thorough), every '
        'divisor k given as k/world, every local rank, colocate on/off and '
        'a catalogue of cost dictionaries (all dictionaries with <=3 layers '
        'over costs {0,1,2} for small worlds) one KAISAAssignment per rank '
        'is built and all public queries are compared across ranks and with '
        'an independent grid reference; the same through '
        'KFACPreconditioner with float and enum fractions in simulated '
        'worlds; assignments are re-derived in separate processes with '
        'different PYTHONHASHSEED values.',
        'world sizes above the bound and cost values outside the alphabets '
        'are not explored.',
        '3/C06'),
    'C16': (
        'bounded-exhaustive enumeration of programs (all module trees up to '
        'a node bound x skip-pattern lists) on the real registration code '
        'against an independent tree walk',
        'Every module tree with <=4 (quick) / <=5 (thorough) nodes over 12 '
        'leaf kinds and 3 container kinds, with shared instances, x 12+ '
        'skip-pattern lists is passed to the real KFACPreconditioner; the '
        'registered (qualified name, instance) set must equal an '
        'independent pre-order walk with re.search, and hook counts are '
        'checked on every module of the tree.',
        'trees above the node bound, other module types and other patterns '
        'are not explored; the GPT-NeoX registration variant is checked '
        'with DeepSpeed stand-ins.',
        '3/C16'),
    'C19': (
        'explicit-state BFS over scheduler operation histories in lock-step '
        'with a reference model; exhaustive enumeration of the decay '
        'schedule domain up to a bound',
        'For all 64 subsets of scheduled parameters every history up to '
        'depth 6 (quick) / 8 (thorough) over {step(), step(k), advance the '
        'preconditioner} is executed on the real LambdaParamScheduler and '
        'compared (exact float equality) with a dictionary reference after '
        'every operation; all 7x64 constructor combinations; '
        'exp_decay_factor_averaging for every k up to 1e4 / 1e6 and 7 caps.',
        'one parametrised family of factor functions; depth bound.',
        '3/C19'),
    'C20': (
        'explicit-state BFS over call/clear/query histories of the real '
        'tracing module under an injected clock, in lock-step with a '
        'reference model',
        'Every history up to length 6 (quick) / 7 (thorough) over completed '
        'calls of three traced functions (two sharing a name), raising '
        'calls and clear_trace is executed on the real kfac.tracing with a '
        'virtual clock; after every operation all 8 (average, max_history) '
        'queries, return-value identity, argument pass-through and '
        'exception identity are compared with a list/dict reference; one '
        'sync=True program in a simulated 2-rank world.',
        'max_history=0 excluded (mean of zero samples undefined); durations '
        'are dyadic so sums are exact.',
        '3/C20'),
    'C15': (
        'bounded-exhaustive enumeration of layer geometries on the real '
        'module helpers against F.unfold / explicit outer-product sums',
        'Every convolution geometry in a finite box (channels, rectangular '
        'kernels, strides, zero paddings, input sizes incl. ones not '
        'divisible by the stride, bias, batch) and every linear geometry '
        '(in/out 1..4, input rank 2-4, bias) is run through the real '
        'helpers with position-revealing integer data in float64; patch '
        'extraction, combined-gradient layout, set/get round trip and '
        'parameter views are compared bit-exactly, factor shapes and '
        'moments against float64 references.',
        'dilation 1, groups 1; geometry box bounded (channels/stride <=2-3, '
        'kernel <=3, padding <=1-2).',
        '3/C15'),
    'C05': (
        'explicit-state BFS over operation histories of the real '
        'preconditioner (states deep-copied and merged by digest) in '
        'lock-step with a reference K-FAC state machine',
        'For each configuration (interval pairs incl. non-multiples and '
        'callables, accumulation, hook/no-hook, constant or step-dependent '
        'callable hyper-parameters, three compute methods) every history up '
        'to depth 5 (quick) / 7 (thorough) over {train iteration, eval pass, '
        'reset_batch, checkpoint round trip into a fresh object, scheduler '
        'step} is executed on the real KFACPreconditioner and compared after '
        'every operation with RefKFAC (gradients, factors, step count, '
        'hyper-parameters, bit-stability of factors / second-order data on '
        'non-update steps).',
        'one small model; tensor values from a fixed lattice; float32 '
        'tolerances scale with the conditioning of the reference system; '
        'quick covers one third of the configuration box per seed.',
        '3/C05'),
    'C01': (
        'bounded-exhaustive enumeration of a configuration box x every step '
        'of a run on the real code, each step checked against the defining '
        'linear system in float64',
        'For every configuration in the box (6 models covering linear / '
        'conv, bias on/off, square layers, N-d inputs; 3 methods; 4 '
        'dampings; 3 decays; dtype triples; clipping active/inactive) and '
        'every step of the run, the gradient left by step() divided by the '
        'clip scale must satisfy (G+dI)V(A+dI)=D resp. GVA+dV=D with '
        'PSD-projected factors, built in float64 from the state_dict '
        'factors; extra families: rank-deficient batches with bf16 factors, '
        'explicitly indefinite loaded factors, step-dependent damping.',
        'numeric universals are decided over a finite data lattice; '
        'tolerance 30*eps*(1+kappa) with kappa from the stored factors.',
        '3/C01'),
    'C04': (
        'bounded-exhaustive enumeration of a configuration box x train/eval '
        'histories on the real code (single process and simulated worlds) '
        'against reference moments from a K-FAC-free twin',
        'Every configuration in the box (layer geometries, batch, decay '
        'constants and schedule, accumulation, hook/no-hook, loss scales '
        'incl. changing per step, factor dtypes, factor interval) is run '
        'over train/eval histories; after every step the state_dict factors '
        'are compared with the float64 decayed running average of second '
        'moments computed from inputs / output gradients captured on a '
        'deep-copied twin without K-FAC; symmetry, PSD, dtype, bit-stability '
        'across eval passes and non-update steps; worlds of 2 and 3 ranks '
        'under two schedules for the mean over ranks.',
        'values from a fixed lattice; quick runs one history per '
        'configuration.',
        '3/C04'),
    'C07': (
        'bounded-exhaustive enumeration of a configuration box on the real '
        'code, differential run (clipping disabled vs value under test) on '
        'identical states, in single process and simulated worlds',
        'Each configuration (models, methods, kl_clip constants / callable '
        '/ None, lr incl. 0 and callable, all-zero gradients, worlds 2 and 4 '
        'under all strategies and two schedules) is executed twice with '
        'model updates disabled: once with kl_clip=1e30 to obtain V, once '
        'with the value under test; on every layer, step and rank the '
        'result must equal nu*V with nu recomputed from the stated formula.',
        'values from a fixed lattice; GPT-NeoX clipping is covered by C11.',
        '3/C07'),
    'C10': (
        'bounded-exhaustive enumeration of programs (all multisets of <=3 '
        'leaf modules of 13 kinds as parallel branches) x dtypes x methods '
        'x train/eval mode histories on the real code with bit-exact '
        'snapshots',
        'For every program, model state_dict and every .grad tensor (value, '
        'shape, dtype, device, contiguity) are snapshotted around step(); '
        'parameters, buffers and unregistered gradients must be bit-equal, '
        'registered gradients keep their metadata and stay finite; a digest '
        'of all K-FAC state must be unchanged by eval-mode passes; outputs '
        'and autograd gradients must be bit-equal to a deep-copied twin '
        'without K-FAC; the set of registered parameters is derived '
        'independently from the skip patterns; eval passes are also '
        'inserted between micro-batches and between backward and step.',
        'leaf kinds and sizes from a fixed catalogue; quick runs 2 of 8 '
        'mode histories per program.',
        '3/C10'),
    'C02': (
        'explicit-state exploration of rank interleavings of the real code '
        'in a simulated world (exhaustive for small worlds, deviation-'
        'bounded beyond) + bounded-exhaustive configuration sweep under '
        'fixed schedules, against a reference K-FAC on the union of batches',
        'The configuration box (world size x every gradient-worker count x '
        'colocation x cost heuristic x bucket capacity x symmetry-aware x 3 '
        'methods x 2 models x dtype variants) is executed for 2-3 steps '
        'under 3-4 fixed schedules incl. lazy delivery with NaN poisoning; '
        'gradients are compared across ranks and with RefKFAC on the union '
        'of the per-rank batches (and with single-process K-FAC using '
        'accumulation). Small configurations are explored over ALL rank '
        'interleavings (states merged by per-rank observation digests; '
        'world 2 two layers two iterations, world 4 HYBRID one layer, also '
        'with free completion times) and a 3-layer 3-iteration world-4 '
        'program over all schedules with <=1 (quick) / <=2 (thorough) '
        'deviations; one-layer programs additionally with completions '
        'landing between any two lines of the kfac sources (deviation-'
        'bounded); the environment model is replayed against real gloo '
        'processes (per-rank collective traces and results compared).',
        'simdist stands in for the backend (per-group FIFO matching; '
        'validated against gloo, DESIGN 2.7); values from a fixed lattice; '
        'exhaustive interleavings only for worlds <= 4 and small programs.',
        '3/C02'),
    'C03': (
        'explicit-state exploration: operation-history BFS per '
        'configuration with states merged by digest, each history executed '
        'in a simulated world whose environment decides matching / '
        'membership / stall; exhaustive and deviation-bounded interleavings '
        'of small histories',
        'For worlds 2 and 4, all gradient-worker counts, interval pairs '
        '(constant and callable), accumulation, hook/no-hook, bucketed/'
        'unbucketed, symmetric/dense, 3 methods, dtype variants: every '
        'history up to depth 3 (quick) / 4 (thorough) over {train, eval, '
        'state_dict on all ranks / rank 0, memory_usage on all ranks / one '
        'rank, load_state_dict with and without inverse computation} is run '
        'under 2-3 schedules; simdist checks that all members of a group '
        'issue the same sequence of collectives (kind, shape, dtype, root), '
        'that nobody communicates on a foreign group, that new_group '
        'sequences are identical, that no rank stalls and nothing stays '
        'incomplete or buffered.',
        'simdist matching model (per-group FIFO); quick covers 1/23 of the '
        'configuration box per seed; GPT-NeoX paths under C11/C12/C18.',
        '3/C03'),
    'C09': (
        'crash-point enumeration: every step boundary of every run x '
        'checkpoint flags, on the real code (single process and simulated '
        'worlds), against RefKFAC and against the uninterrupted real run',
        'For every configuration and EVERY boundary c in 0..T, the state is '
        'saved on all ranks, loaded into a fresh model + fresh '
        'preconditioner built with different constant hyper-parameters, and '
        'training continues; restored steps / scalars / factors are '
        'compared bit-exactly on every rank; the continuation is compared '
        'with the reference machine and, where the property demands it, '
        'with the uninterrupted real run (bit-identical on the unchanged '
        'tree); a state kept in memory (uncopied) while training continues '
        'and then rolled back to must be unchanged.',
        'T = 4 (quick) / 6 (thorough); combinations the documentation '
        'excludes are not generated; simdist stands in for the backend.',
        '3/C09'),
    'C13': (
        'bounded-exhaustive configuration sweep in simulated worlds with '
        'the complete collective trace and an independent tensor walk as '
        'observations',
        'For every configuration (world, gradient-worker count, interval '
        'pairs, bucketing, symmetry, method, colocation, hook/no-hook, '
        'model) and every step, the per-rank collective trace (kind, group '
        'members, element count) must be exactly what the KAISA strategy '
        'prescribes, memory_usage() must equal the bytes of the tensors '
        'found by an independent walk over the layer objects, and '
        'second-order data must be held iff the rank is a gradient worker '
        'of the layer (a column of the reference grid).',
        'worlds <= 4 quick / <= 8 thorough; every third history contains a '
        'save + load.',
        '3/C13'),
    'C11': (
        'explicit-state exploration of rank interleavings (exhaustive for '
        '(1,2) and (2,1), deviation-bounded for (2,2)) + bounded-exhaustive '
        'configuration sweep under fixed schedules of the real GPT-NeoX '
        'K-FAC code on Megatron/DeepSpeed stand-ins, against the unsharded '
        'reference',
        'Every (data, model) decomposition in the box x bias on/off x '
        'clipping inactive/active/None x bucketed or not x interval pairs '
        'is trained for 3 steps on a column-parallel + row-parallel model; '
        'each rank\'s gradient shards are compared with the shards of what '
        'RefKFAC produces for the unsharded layers (clipping included), the '
        'factors on the inverse worker with the unsharded factors, replicas '
        'and replicated parameters across ranks; simdist checks collective '
        'matching throughout.',
        'DeepSpeed topology / PipelineModule and Megatron Column/'
        'RowParallelLinear are re-implemented stand-ins (trusted base); '
        'model-parallel degree <= 3 (quick) / 6 (thorough); known finding: '
        'clip scale computed per shard.',
        '3/C11'),
    'C12': (
        'bounded-exhaustive enumeration of 3-D topologies x ranks x cost '
        'dictionaries on the real GPTNeoXAssignment against coordinate '
        'arithmetic and a brute-force greedy-consistency oracle',
        'For every (pipe, data, model) in {1..4}^3 (quick) / {1..5}^3 '
        '(thorough), every local rank and every cost dictionary with <=3 '
        'layers over costs {0,1,2} plus a tie-heavy catalogue, one real '
        'assignment per rank is built in a simulated world that records '
        'new_group; inverse worker agreement and greedy-consistency per '
        'stage, factor worker, gradient source, gradient workers and the '
        'new_group sequences of all ranks are checked.',
        'the DeepSpeed topology is a re-implemented stand-in, checked '
        'against the arithmetic rank numbering.',
        '3/C12'),
    'C18': (
        'crash-point enumeration (every step boundary x checkpoint mode x '
        'flags) of the real GPT-NeoX checkpoint code in simulated worlds, '
        'plus exhaustive interleavings of a save+load history',
        'For (data, model) in {(1,1),(2,1),(1,2),(2,2)}, every boundary c of '
        'a T-step run, in-memory and directory checkpointing, '
        'compute_inverses on/off: all ranks save, fresh objects load, '
        'training continues; saved layers / files must be bit-equal to the '
        'factors held by each layer\'s inverse worker on every rank, the '
        'gathering ranks must hold factors and second-order data after '
        'load, the continuation is compared with the unsharded reference; '
        'simdist checks that all ranks take part in the same collectives.',
        'stand-ins as for C11; known finding: resuming with model-parallel '
        'degree > 1 (replicated factors restored on one rank only).',
        '3/C18'),
}

NOT_YET = 'check not built yet (work in progress, see DESIGN.md section 8)'


def build():
    checks = []
    for pid, (tech, text, note, ref) in sorted(CHECKS.items()):
        checks.append({
            'property_id': pid,
            'quick_cmd': f'./check {pid} --tier quick',
            'thorough_cmd': f'./check {pid} --tier thorough',
            'evidence_file': f'/verif/evidence/{pid}.json',
            'replay_cmd_template': f'./check {pid} --replay {{path}}',
            'engine': 'vf',
            'level_claimed': {'category': 'model_checking', 'text': text,
                              'design_ref': ref},
            'level_note': note,
            'technique': tech,
        })
    man = {
        'version': 1,
        'setup_cmd': 'true',
        'hooks': {
            'guard': 'KFAC_VERIF',
            'enable': 'no source hooks: every seam (torch.distributed, '
                      'Future.wait, kfac.tracing.time, deepspeed stand-ins) '
                      'is replaced from the harness side at run time',
            'baseline_off_cmd': 'cd /repo && /venv/bin/python -m pytest -ra '
                                '-q -p no:cacheprovider --timeout=900 '
                                '--continue-on-collection-errors',
            'source_commits': [],
            'add_only': True,
        },
        'engines': [{
            'name': 'vf',
            'path': '/verif/vf',
            'serves_properties': sorted(CHECKS),
            'kind_free_text': 'hand-written explicit-state / bounded-'
                              'exhaustive explorer driving the real kfac '
                              'code (simdist world + scheduler), Python',
        }],
        'checks': checks,
        'not_applicable': [
            {'property_id': p, 'reason': NOT_YET}
            for p in ALL if p not in CHECKS],
        'notes': 'See DESIGN.md. Fix commits in /repo are listed in '
                 'known_findings.json under "fixed".',
    }
    with open(os.path.join(VERIF, 'MANIFEST.json'), 'w') as fh:
        json.dump(man, fh, indent=1)
    return man


if __name__ == '__main__':
    m = build()
    print('checks:', [c['property_id'] for c in m['checks']])
