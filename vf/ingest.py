"""Ingest a sub-agent's deliverables: python3 -m vf.ingest PID WAVE <<< JSON

JSON = [[change, needs_to_manifest], [change, needs_to_manifest]] for
patch_1 / patch_2 found under /tmp/wt/m_<PID>/_out.  Copies them to
seeded/<PID>_<n>/ (next free numbers), writes meta.json and removes the
scratch worktree.  Detection is tested separately with vf.mutants."""
from __future__ import annotations

import json
import os
import shutil
import subprocess
import sys

VERIF = os.path.dirname(os.path.dirname(os.path.abspath(__file__)))


def main():
    pid, wave = sys.argv[1], sys.argv[2]
    chs = json.load(sys.stdin)
    src = f'/tmp/wt/m_{pid}/_out'
    os.chdir(VERIF)
    ex = [int(d.split('_')[1]) for d in os.listdir('seeded')
          if d.startswith(pid + '_')]
    base = max(ex) if ex else 0
    made = []
    for i, (ch, need) in enumerate(chs, 1):
        if not os.path.exists(f'{src}/patch_{i}.diff'):
            continue
        d = f'seeded/{pid}_{base + i}'
        os.makedirs(d, exist_ok=True)
        shutil.copy(f'{src}/patch_{i}.diff', d + '/patch.diff')
        shutil.copy(f'{src}/demo_{i}.py', d + '/demo.py')
        if os.path.exists(f'{src}/notes.md'):
            shutil.copy(f'{src}/notes.md', d + '/agent_notes.md')
        json.dump({'id': f'{pid}_{base + i}', 'property': pid, 'change': ch,
                   'needs_to_manifest': need,
                   'source': f'independent sub-agent ({wave}) working in its '
                   'own scratch worktree without access to /verif'},
                  open(d + '/meta.json', 'w'), indent=1)
        made.append(d + '/patch.diff')
    subprocess.run(['git', 'worktree', 'remove', '--force',
                    f'/tmp/wt/m_{pid}'], cwd='/repo')
    subprocess.run(['git', 'worktree', 'prune'], cwd='/repo')
    print(' '.join(made))


if __name__ == '__main__':
    main()
