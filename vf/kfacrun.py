"""Harness programs that drive the real KFACPreconditioner over an operation
history (single process or one rank of a simdist world), and the matching
reference trajectory computed with kfacref.RefKFAC on K-FAC-free twins."""
from __future__ import annotations

import copy
import functools
import json

import torch
import torch.distributed as dist

from vf import kfacref as R
from vf.digest import digest as _dg
from vf.digest import kfac_state as _kfac_state

F64 = torch.float64


# ---------------------------------------------------------------- specs
class ExtClock:
    """External state a hyper-parameter callable may track (e.g. the
    optimizer's learning rate): the harness iteration, advanced by the
    harness at the start of every training iteration."""

    def __init__(self):
        self.i = 0


class ExtHP:
    """callable(step) that ignores the K-FAC step and reads the clock."""

    def __init__(self, clock, vals):
        self.clock, self.vals = clock, list(vals)

    def __call__(self, step):
        return self.vals[self.clock.i % len(self.vals)]


def mk_hp(spec, clock=None):
    """number | ['cyc', [v0, v1, ...]] (callable: step -> v[step % len]) |
    ['ext', [...]] (callable tracking external state, see ExtHP)."""
    if isinstance(spec, (list, tuple)) and spec and spec[0] == 'ext':
        return ExtHP(clock if clock is not None else ExtClock(), spec[1])
    if isinstance(spec, (list, tuple)) and spec and spec[0] == 'cyc':
        vals = list(spec[1])
        return lambda step: vals[step % len(vals)]
    if isinstance(spec, (list, tuple)) and spec and spec[0] == 'exp':
        cap = spec[1]  # the documented exp-decay averaging schedule
        return lambda step: min(1 - 1 / max(step, 1), cap)
    return spec


HP_NAMES = ('factor_update_steps', 'inv_update_steps', 'damping',
            'factor_decay', 'kl_clip', 'lr')


def kfac_kwargs(cfg, clock=None):
    from kfac.enums import DistributedStrategy

    kw = dict(cfg.get('kfac', {}))
    for n in HP_NAMES:
        if n in kw:
            kw[n] = mk_hp(kw[n], clock)
    for n in ('factor_dtype', 'inv_dtype'):
        if isinstance(kw.get(n), str):
            kw[n] = R.DT[kw[n]]
    g = kw.get('grad_worker_fraction')
    if isinstance(g, str):
        kw['grad_worker_fraction'] = DistributedStrategy[g]
    return kw


def method_of(cfg):
    k = cfg.get('kfac', {})
    m = str(k.get('compute_method', 'eigen')).lower()
    if m == 'inverse':
        return 'inverse'
    return 'eigen_prediv' if k.get('compute_eigenvalue_outer_product',
                                   True) else 'eigen'


class NullWorld:
    """Stands in for a simdist world in single-process runs."""
    n = 1

    def __init__(self):
        self.tag = [None]
        self.store = {}

    def point(self, label='op'):
        pass

    def set_digest(self, fn):
        pass


# -------------------------------------------------------------- real run
class Scaler:
    """Loss scale as a function of the harness iteration (deep-copyable)."""

    def __init__(self, spec):
        self.spec, self.it = spec, 0

    def __call__(self):
        s = mk_hp(self.spec)
        return s(self.it) if callable(s) else s


class RealRun:
    def __init__(self, cfg, rank, world):
        self.cfg, self.rank, self.world = cfg, rank, world
        self.n = cfg.get('world', 1)
        self.dtype = R.DT[cfg.get('dtype', 'f32')]
        self.seed = cfg.get('seed', 0)
        self.acc = cfg.get('kfac', {}).get('accumulation_steps', 1)
        self.it = 0  # harness iteration counter (train ops)
        self.scale_spec = cfg.get('scale')
        self.scaler = Scaler(self.scale_spec)
        self.clock = ExtClock()
        self.model = R.build_model(cfg['model'], self.dtype, self.seed)
        self.pre = self._mk_pre(self.model)
        self.sched = None
        self.rec = []
        world.set_digest(self._digest)

    def _scale(self):
        return self.scaler()

    def _digest(self):
        # parameters of registered modules are reachable through self.pre
        reg = {id(m) for m in self.pre._layers}
        extra = [m for m in self.model.modules()
                 if id(m) not in reg and len(list(m.children())) == 0
                 and (list(m.parameters(recurse=False))
                      or list(m.buffers(recurse=False)))]
        try:
            return _kfac_state(self.pre, extra, len(self.rec))
        except Exception:  # noqa  (unexpected structure: generic walk)
            return _dg(self.pre, extra, len(self.rec))

    def _mk_pre(self, model, perturb=False):
        import kfac

        kw = kfac_kwargs(self.cfg, self.clock)
        if perturb:
            # a fresh object built with OTHER constant hyper-parameters, so
            # that restoring them from the state is observable
            alt = {'damping': lambda v: v * 3, 'factor_decay': lambda v: 0.77,
                   'kl_clip': lambda v: v * 5, 'lr': lambda v: v * 2 + 0.01,
                   'factor_update_steps': lambda v: v + 1,
                   'inv_update_steps': lambda v: v + 2}
            defaults = {'damping': 0.001, 'factor_decay': 0.95,
                        'kl_clip': 0.001, 'lr': 0.1,
                        'factor_update_steps': 1, 'inv_update_steps': 1}
            for n, f in alt.items():
                v = kw.get(n, defaults[n])
                if not callable(v) and v is not None:
                    kw[n] = f(v)
                elif v is None and n == 'kl_clip':
                    kw[n] = 1e-3
        if self.scale_spec is not None:
            kw['grad_scaler'] = self.scaler
        return kfac.preconditioner.KFACPreconditioner(model, **kw)

    def layers(self):
        return {name: (mod, layer)
                for mod, (name, layer) in self.pre._layers.items()}

    def grads(self):
        return {n: (None if p.grad is None else p.grad.detach().clone())
                for n, p in self.model.named_parameters()}

    def do(self, op, idx):
        kind = op[0]
        w = self.world
        w.tag[self.rank] = (kind, idx, self.pre.steps)
        ev = {'op': list(op), 'steps_before': self.pre.steps}
        if kind == 'train':
            self.train(ev)
        elif kind == 'train_reset':
            # reset_batch() between backward and step (discards what the
            # no-hook mode has accumulated for this iteration)
            # ['train_reset', j]: reset_batch() after j micro-batches of the
            # accumulation window (the rest of the window follows)
            self.train(ev, reset_mid=True,
                       reset_at=op[1] if len(op) > 1 else None)
        elif kind == 'eval':
            self.model.eval()
            x = R.batch_for(self.cfg['model'], self.cfg.get('batch', 2),
                            self.dtype, self.rank, 1000 + idx, 0, self.seed)
            out = self.model(x)
            R.loss_fn(out, self.rank, 1000 + idx, 0, self.seed).backward()
            self.model.zero_grad()
            self.model.train()
        elif kind == 'reset':
            self.pre.reset_batch()
        elif kind == 'perturb':
            # load a state whose factors are (mildly) indefinite: shift so
            # that the smallest eigenvalue becomes -op[1]
            sd = self.pre.state_dict()
            for st in sd['layers'].values():
                for k in ('A', 'G'):
                    t = st[k]
                    mn = torch.linalg.eigvalsh(t.to(F64)).min().item()
                    st[k] = (t.to(F64) - (mn + op[1]) * torch.eye(
                        t.shape[0], dtype=F64)).to(t.dtype)
            self.pre.load_state_dict(sd)
        elif kind == 'state':
            # state_dict on all ranks or on the ranks listed
            if len(op) == 1 or self.rank in op[1]:
                sd = self.pre.state_dict()
                ev['state'] = snap_state(sd)
        elif kind == 'mem':
            if len(op) == 1 or self.rank in op[1]:
                ev['mem'] = dict(self.pre.memory_usage())
                ev['held'] = held_bytes(self.pre)
                a = self.pre._assignment
                ev['gw'] = {n: a.is_grad_worker(n) for n in a.get_layers()}
                ev['inv'] = {n: {f: a.inv_worker(n, f)
                                 for f in a.get_factors(n)}
                             for n in a.get_layers()}
        elif kind == 'ckpt':
            include, compute = op[1], op[2]
            sd = self.pre.state_dict(include_factors=include)
            ev['saved'] = snap_state(sd)
            sd = copy.deepcopy(sd)
            model = R.build_model(self.cfg['model'], self.dtype, self.seed)
            model.load_state_dict(self.model.state_dict())
            self.model = model
            self.pre = self._mk_pre(
                model, perturb=self.cfg.get('ckpt_perturb', False))
            self.pre.load_state_dict(sd, compute_inverses=compute)
            self.sched = None
            ev['loaded'] = snap_state(self.pre.state_dict())
            w.set_digest(self._digest)
        elif kind == 'train_evalsub':
            # a training iteration during which the first registered
            # sub-module is in eval mode (frozen statistics): it captures no
            # batch on this step
            first = next(iter(self.pre._layers))
            first.eval()
            self.train(ev)
            first.train()
        elif kind == 'reload':
            # a factor-less state loaded back into the SAME object, on the
            # listed ranks only (implies no collective: there is nothing to
            # invert or to broadcast)
            if len(op) == 1 or self.rank in op[1]:
                import warnings

                sd = self.pre.state_dict(include_factors=False)
                with warnings.catch_warnings():
                    warnings.simplefilter('ignore')
                    self.pre.load_state_dict(sd)
        elif kind == 'setneg':
            # load negative definite A factors (a state a user may hand to
            # load_state_dict): with the inverse method <V,D> is negative
            sd = self.pre.state_dict()
            for st in sd['layers'].values():
                n = st['A'].shape[0]
                st['A'] = (-float(op[1]) * torch.eye(n, dtype=F64)).to(
                    st['A'].dtype)
            self.pre.load_state_dict(sd)
        elif kind == 'setcorr':
            # load A factors with strongly correlated features (rho), G = I:
            # the preconditioned gradient then has entries of both signs
            # relative to the gradient
            sd = self.pre.state_dict()
            for st in sd['layers'].values():
                n = st['A'].shape[0]
                A = torch.full((n, n), float(op[1]), dtype=F64)
                A.fill_diagonal_(1.0)
                st['A'] = A.to(st['A'].dtype)
                st['G'] = torch.eye(st['G'].shape[0], dtype=st['G'].dtype)
            self.pre.load_state_dict(sd)
        elif kind == 'keep':
            # keep a state in memory WITHOUT copying it (as a training loop
            # tracking its best checkpoint would) while training continues
            self.kept = self.pre.state_dict()
            ev['saved'] = snap_state(self.kept)
        elif kind == 'rollback':
            # load the kept state into the SAME (already used) object
            self.pre.load_state_dict(self.kept, compute_inverses=True)
            ev['loaded'] = snap_state(self.pre.state_dict())
        elif kind == 'loadkept':
            ev['kept_now'] = snap_state(self.kept)
            model = R.build_model(self.cfg['model'], self.dtype, self.seed)
            model.load_state_dict(self.model.state_dict())
            self.model = model
            self.pre = self._mk_pre(
                model, perturb=self.cfg.get('ckpt_perturb', False))
            self.pre.load_state_dict(self.kept, compute_inverses=op[1])
            self.sched = None
            ev['loaded'] = snap_state(self.pre.state_dict())
            w.set_digest(self._digest)
        elif kind == 'sched':
            # ('sched', {param: factor-spec}, explicit_step|None)
            if self.sched is None or self.sched[0] != op[1]:
                from kfac.scheduler import LambdaParamScheduler

                lam = {f'{p}_lambda': mk_hp(v) if callable(mk_hp(v))
                       else (lambda s, v=v: v) for p, v in op[1].items()}
                self.sched = (op[1], LambdaParamScheduler(self.pre, **lam))
            self.sched[1].step(op[2] if len(op) > 2 else None)
        else:
            raise KeyError(kind)
        ev['steps_after'] = self.pre.steps
        ev['hp'] = {n: _safe(lambda n=n: getattr(self.pre, n))
                    for n in HP_NAMES}
        if self.cfg.get('digests'):
            ev['dg'] = state_digests(self.pre)
        self.rec.append(ev)
        w.point(('op', idx))

    def train(self, ev, reset_mid=False, reset_at=None):
        cfg = self.cfg
        scale = self._scale() if self.scale_spec is not None else None
        self.clock.i = self.it  # external state changes before the step
        self.model.zero_grad()
        if reset_at is not None and reset_at >= self.acc:
            reset_at = None
        for mb in range(self.acc):
            if reset_mid and reset_at is not None and mb == reset_at:
                self.pre.reset_batch()
            # as_ranks: single process emulating N ranks as micro-batches
            dr, dm = (mb, 0) if cfg.get('as_ranks') else (self.rank, mb)
            x = R.batch_for(cfg['model'], cfg.get('batch', 2), self.dtype,
                            dr, self.it, dm, self.seed)
            if cfg.get('x_mult'):
                x = x * cfg['x_mult']
            out = self.model(x)
            loss = R.loss_fn(out, dr, self.it, dm, self.seed)
            # as_ranks: every micro-batch is a rank's full batch (loss not
            # divided); the accumulated gradient is averaged afterwards
            if not cfg.get('as_ranks'):
                loss = loss / self.acc
            loss = loss * cfg.get('loss_mult', 1.0)
            if cfg.get('zero_loss'):
                loss = loss * 0.0
            if scale is not None:
                loss = loss * scale
            loss.backward()
        params = [p for p in self.model.parameters() if p.grad is not None]
        if cfg.get('as_ranks'):
            for p in params:
                p.grad.div_(self.acc)
        if scale is not None:
            for p in params:
                p.grad.div_(scale)
        if self.n > 1:
            flat = torch.cat([p.grad.reshape(-1) for p in params])
            old_tag = self.world.tag[self.rank]
            self.world.tag[self.rank] = ('ddp',)
            dist.all_reduce(flat)
            self.world.tag[self.rank] = old_tag
            flat = flat / self.n
            o = 0
            for p in params:
                k = p.grad.numel()
                p.grad.copy_(flat[o:o + k].reshape(p.grad.shape))
                o += k
        ev['D'] = self.grads()
        ev['meta_before'] = grad_meta(self.model)
        ev['params_before'] = {n: p.detach().clone() for n, p in
                               self.model.state_dict().items()}
        if reset_mid and reset_at is None:
            self.pre.reset_batch()
        if cfg.get('mem_mid'):
            # memory query in the middle of the iteration (after backward,
            # before step): batch statistics may be pending
            ev['mem_mid'] = dict(self.pre.memory_usage())
            ev['held_mid'] = held_bytes(self.pre)
        self.pre.step()
        ev['P'] = self.grads()
        ev['meta_after'] = grad_meta(self.model)
        ev['params_after'] = {n: p.detach().clone() for n, p in
                              self.model.state_dict().items()}
        if cfg.get('record_factors', True):
            ev['factors'] = snap_state(self.pre.state_dict())['layers']
        lr = cfg.get('sgd_lr', 0.05)
        with torch.no_grad():
            for p in self.model.parameters():
                if p.grad is not None:
                    p.add_(p.grad, alpha=-lr)
        self.it += 1
        self.scaler.it = self.it


def _safe(f):
    try:
        return f()
    except Exception as e:  # noqa
        return f'<{type(e).__name__}>'


def grad_meta(model):
    return {n: (None if p.grad is None else
                (tuple(p.grad.shape), str(p.grad.dtype), str(p.grad.device),
                 p.grad.is_contiguous()))
            for n, p in model.named_parameters()}


def snap_state(sd):
    out = {k: v for k, v in sd.items() if k != 'layers'}
    if 'layers' in sd:
        out['layers'] = {
            n: {k: (None if t is None else t.detach().clone())
                for k, t in st.items()}
            for n, st in sd['layers'].items()}
    return out


SO_ATTRS = ('qa', 'qg', 'da', 'dg', 'dgda', 'a_inv', 'g_inv')


def held_bytes(pre):
    """Independent walk: bytes of tensors actually held per category."""
    from kfac.distributed import Future

    tot = {'factors': 0, 'second_order': 0, 'batch': 0, 'a_batch': 0,
           'g_batch': 0, 'other': 0, 'other_names': []}
    per_layer = {}
    for mod, (name, layer) in pre._layers.items():
        so = 0
        for k, v in vars(layer).items():
            if isinstance(v, Future):
                v = v.wait()
            if not isinstance(v, torch.Tensor):
                continue
            b = v.nelement() * v.element_size()
            kk = k.lstrip('_')
            if kk in ('a_factor', 'g_factor'):
                tot['factors'] += b
            elif kk in ('a_batch', 'g_batch'):
                tot['batch'] += b
                tot[kk] += b
            elif kk in SO_ATTRS:
                tot['second_order'] += b
                so += b
            else:
                # any further tensor the layer object keeps alive
                tot['other'] += b
                tot['other_names'].append(f'{name}.{k}')
        per_layer[name] = so
    tot['per_layer_second_order'] = per_layer
    return tot


def state_digests(pre):
    """Digests of factors / second-order data / everything (single
    process only: reading the attributes would wait on futures)."""
    fac, so = [], []
    for mod, (name, layer) in pre._layers.items():
        d = vars(layer)
        fac.append([d.get('_a_factor'), d.get('_g_factor')])
        so.append([d.get('_' + a) for a in SO_ATTRS])
    return {'fac': _dg(fac), 'so': _dg(so),
            'all': _dg([{k: v for k, v in vars(layer).items()
                         if k not in ('module', 'tdc')}
                        for _, (_, layer) in pre._layers.items()],
                       pre._steps, dict(pre._mini_steps))}


def make_program(cfg):
    def program(rank, world):
        run = RealRun(cfg, rank, world)
        for i, op in enumerate(cfg['history']):
            run.do(op, i)
        world.store.setdefault('runs', {})[rank] = run
        return run.rec
    return program


def run_single(cfg):
    """World of one, torch.distributed not initialised."""
    w = NullWorld()
    return make_program(cfg)(0, w), w


# ------------------------------------------------------------- reference
def _freeze(o):
    return json.dumps(o, sort_keys=True, default=str)


def ref_key(cfg):
    """Everything the reference trajectory depends on (not placement)."""
    k = cfg.get('kfac', {})
    keep = {n: k.get(n) for n in HP_NAMES}
    keep['method'] = method_of(cfg)
    keep['acc'] = k.get('accumulation_steps', 1)
    keep['skip'] = k.get('skip_layers')
    return _freeze([cfg['model'], cfg.get('dtype', 'f32'),
                    cfg.get('batch', 2), cfg.get('world', 1),
                    cfg.get('seed', 0), cfg.get('scale'),
                    cfg.get('zero_loss'), cfg.get('loss_mult'),
                    cfg.get('x_mult'),
                    cfg.get('sgd_lr', 0.05), cfg['history'], keep])


_REF_CACHE = {}


def reference(cfg):
    key = ref_key(cfg)
    if key not in _REF_CACHE:
        if len(_REF_CACHE) > 64:
            _REF_CACHE.clear()
        _REF_CACHE[key] = _reference(cfg)
    return _REF_CACHE[key]


def _reference(cfg):
    """Per history op: expected steps / factors / gradients (float64)."""
    rr = RefRun(cfg)
    return [rr.do(op, i) for i, op in enumerate(cfg['history'])]


class RefRun:
    """The reference side of a run, advanced one operation at a time."""

    def __init__(self, cfg):
        import re

        self.cfg = cfg
        self.n = cfg.get('world', 1)
        self.dtype = R.DT[cfg.get('dtype', 'f32')]
        self.seed = cfg.get('seed', 0)
        k = cfg.get('kfac', {})
        self.acc = k.get('accumulation_steps', 1)
        self.twin = R.Twin(R.build_model(cfg['model'], self.dtype, self.seed))
        skip = k.get('skip_layers') or []
        self.names = [nm for nm, m in R.eligible(self.twin.model)
                      if not any(re.search(p, nm) for p in skip)
                      and not any(re.search(p, type(m).__name__)
                                  for p in skip)]

        self.clock = ExtClock()

        def hpv(nm, default):
            return mk_hp(k.get(nm, default), self.clock)

        hps = dict(fus=hpv('factor_update_steps', 1),
                   ius=hpv('inv_update_steps', 1),
                   damping=hpv('damping', 0.001),
                   decay=hpv('factor_decay', 0.95),
                   kl_clip=hpv('kl_clip', 0.001), lr=hpv('lr', 0.1))
        self.ref = R.RefKFAC(self.names, method=method_of(cfg), **hps)
        self.it = 0

    def mods(self):
        return dict(R.eligible(self.twin.model))

    def do(self, op, idx):
        cfg, n, acc, seed, dtype = (self.cfg, self.n, self.acc, self.seed,
                                    self.dtype)
        twin, ref, names, mods = self.twin, self.ref, self.names, self.mods()
        scale_spec = cfg.get('scale')
        it = self.it
        ev = {'op': list(op)}
        if op[0] in ('train', 'train_reset'):
            sc = mk_hp(scale_spec)
            scale = (sc(it) if callable(sc) else sc) \
                if scale_spec is not None else None
            self.clock.i = it
            fstep = ref.is_factor_step()
            twin.on = fstep
            twin.clear()
            twin.model.zero_grad()
            for r in range(n):
                for mb in range(acc):
                    x = R.batch_for(cfg['model'], cfg.get('batch', 2), dtype,
                                    r, it, mb, seed)
                    if cfg.get('x_mult'):
                        x = x * cfg['x_mult']
                    o = twin.model(x)
                    loss = R.loss_fn(o, r, it, mb, seed) / acc \
                        * cfg.get('loss_mult', 1.0)
                    if cfg.get('zero_loss'):
                        loss = loss * 0.0
                    if scale is not None:
                        loss = loss * scale
                    loss.backward()
            with torch.no_grad():
                for p in twin.model.parameters():
                    if p.grad is not None:
                        if scale is not None:
                            p.grad.div_(scale)
                        if n > 1:
                            p.grad.div_(n)
            moments = {}
            # ['train_reset', j] with j < acc: the statistics of the first j
            # micro-batches of the window were discarded
            j0 = op[1] if op[0] == 'train_reset' and len(op) > 1 \
                and op[1] < acc else 0
            if fstep:
                for nm in names:
                    cap = twin.cap[nm]
                    sel = [i for i in range(len(cap['a'])) if i % acc >= j0]
                    ca = [cap['a'][i] for i in sel]
                    MA = sum(R.moment_a(mods[nm], a) for a in ca) / len(ca)
                    gs = cap['g']
                    # backward order: captures of one window arrive per
                    # micro-batch as well (one per backward pass)
                    if len(gs) == len(cap['a']):
                        gs = [gs[i] for i in sel]
                    # (else: the layer saw fewer backward than forward
                    # passes; the mean is over the backward passes seen)
                    MG = sum(R.moment_g(
                        mods[nm], g if scale is None else g.to(F64) / scale)
                        for g in gs) / len(gs)
                    moments[nm] = (MA, MG)
            if op[0] == 'train_reset' and not j0 and not cfg.get(
                    'kfac', {}).get('update_factors_in_hook', True):
                moments = {}  # the accumulated batch was discarded
            D = {nm: R.combined_grad(mods[nm]) for nm in names}
            ev['D'] = D
            ev['raw'] = {pn: p.grad.detach().to(F64).clone()
                         for pn, p in twin.model.named_parameters()
                         if p.grad is not None}
            ev['factor_step'], ev['inv_step'] = fstep, ref.is_inv_step()
            ev['damping'] = R.hp(ref.damping, ref.steps)
            ev['lr'] = R.hp(ref.lr, ref.steps)
            ev['kl_clip'] = R.hp(ref.kl_clip, ref.steps)
            P, nu = ref.step(moments, D)
            ev['P'], ev['nu'] = P, nu
            ev['A'] = {nm: ref.A[nm].clone() for nm in names}
            ev['G'] = {nm: ref.G[nm].clone() for nm in names}
            ev['so'] = {nm: ref.so[nm] for nm in names}
            # twin follows the reference's own preconditioned gradients
            lr = cfg.get('sgd_lr', 0.05)
            with torch.no_grad():
                for nm in names:
                    m = mods[nm]
                    g = P[nm]
                    if m.bias is not None:
                        m.bias.grad.copy_(g[:, -1].reshape(m.bias.shape))
                        g = g[:, :-1]
                    m.weight.grad.copy_(g.reshape(m.weight.shape))
                for p in twin.model.parameters():
                    if p.grad is not None:
                        p.add_(p.grad, alpha=-lr)
            self.it += 1
        elif op[0] == 'keep':
            self.kept = ref.state(include_factors=True)
            # the state also carries the constant hyper-parameters
            self.kept['hp'] = {a: getattr(ref, a) for a in
                               ('fus', 'ius', 'damping', 'decay', 'kl_clip',
                                'lr') if not callable(getattr(ref, a))}
        elif op[0] in ('loadkept', 'rollback'):
            ref2 = R.RefKFAC(names, method=method_of(cfg), **{
                'fus': ref.fus, 'ius': ref.ius, 'damping': ref.damping,
                'decay': ref.decay, 'kl_clip': ref.kl_clip, 'lr': ref.lr})
            for a, v in self.kept.get('hp', {}).items():
                setattr(ref2, a, v)
            ref2.load(self.kept, compute_inverses=op[1] if len(op) > 1
                      else True)
            self.ref = ref = ref2
        elif op[0] == 'ckpt':
            st = ref.state(include_factors=op[1])
            ref2 = R.RefKFAC(names, method=method_of(cfg), **{
                'fus': ref.fus, 'ius': ref.ius, 'damping': ref.damping,
                'decay': ref.decay, 'kl_clip': ref.kl_clip, 'lr': ref.lr})
            ref2.load(st, compute_inverses=op[2])
            self.ref = ref = ref2
        elif op[0] == 'sched':
            for pn, spec in op[1].items():
                f = mk_hp(spec)
                step = op[2] if len(op) > 2 and op[2] is not None \
                    else ref.steps
                fac = f(step) if callable(f) else f
                attr = {'factor_update_steps': 'fus',
                        'inv_update_steps': 'ius', 'damping': 'damping',
                        'factor_decay': 'decay', 'kl_clip': 'kl_clip',
                        'lr': 'lr'}[pn]
                cur = getattr(ref, attr)
                setattr(ref, attr, int(cur * fac) if attr in ('fus', 'ius')
                        else cur * fac)
        ev['steps_after'] = ref.steps
        ev['hp'] = {'factor_update_steps': _safe(lambda: R.hp(ref.fus,
                                                             ref.steps)),
                    'inv_update_steps': _safe(lambda: R.hp(ref.ius,
                                                           ref.steps)),
                    'damping': R.hp(ref.damping, ref.steps),
                    'factor_decay': R.hp(ref.decay, ref.steps),
                    'kl_clip': R.hp(ref.kl_clip, ref.steps),
                    'lr': R.hp(ref.lr, ref.steps)}
        return ev


# ----------------------------------------------------------- comparisons
def layer_grad(P, name, has_bias):
    """Combined (out, in[+1]) float64 gradient of layer `name` from a
    named_parameters() -> grad dict."""
    w = P[f'{name}.weight'].to(F64)
    w = w.reshape(w.shape[0], -1)
    if has_bias:
        w = torch.cat([w, P[f'{name}.bias'].to(F64).reshape(-1, 1)], 1)
    return w


def rel_err(a, b):
    d = (a - b).norm().item()
    n = b.norm().item()
    if not (d == d):
        return float('inf')
    return d / n if n > 0 else d


EPS = {'f32': 1.2e-7, 'f64': 1.2e-7, 'bf16': 7.9e-3}
# second-order data is always computed in float32, hence f64 -> 1.2e-7
