"""Shared helpers for checks that run kfacrun programs in simdist worlds."""
from __future__ import annotations

import torch

from vf import explore, simdist
from vf import kfacrun as K
from vf import oracles as O

F64 = torch.float64


def sim_bad(w):
    bad = list(w.violations)
    bad += [('exception', f'rank{r}: {e[0]}') for r, e in enumerate(w.errors)
            if e and e[0] != 'SimViolation']
    return bad


def run_fixed(cfg, sname, program=None):
    w = simdist.run_world(cfg['world'], program or K.make_program(cfg),
                          sname)
    return w, sim_bad(w)


def cross_rank(cfg, results, tol=1e-6):
    """C02(i): gradients of every rank agree after every step."""
    v = []
    biteq = True
    ref = results[0]
    for r in range(1, len(results)):
        for t, (e0, er) in enumerate(zip(ref, results[r])):
            if e0['op'][0] != 'train':
                continue
            for pn, g0 in e0['P'].items():
                gr = er['P'][pn]
                if g0 is None or gr is None:
                    if (g0 is None) != (gr is None):
                        v.append(('cross-rank', f'op {t}: {pn} None on one '
                                  'rank only'))
                    continue
                if not torch.equal(g0, gr):
                    biteq = False
                    e = K.rel_err(gr.to(F64), g0.to(F64))
                    if not e <= tol:
                        v.append(('cross-rank', f'op {t}: gradient of {pn} '
                                  f'on rank {r} differs from rank 0 by '
                                  f'{e:.2e}'))
                        return v, biteq
    return v, biteq


def vs_reference(cfg, results, ref, stats=None, who=''):
    v = []
    for r, rec in enumerate(results):
        for ev, rv in zip(rec, ref):
            if ev['op'][0] != 'train':
                continue
            v += O.grads_vs_ref(cfg, ev, rv, f'{who}rank{r}: ', stats=stats)
            if v:
                return v
    return v


def outcome_of(world):
    out = []
    for rec in world.results:
        for ev in rec or []:
            if ev['op'][0] == 'train':
                out.append([(pn, None if g is None else g.tolist())
                            for pn, g in ev['P'].items()])
            out.append(ev.get('steps_after'))
    return explore.digest(out)


def explore_cfg(cfg, delivery='eager', oracle=None, bound=None,
                max_states=60000, program=None, max_seconds=None):
    import os

    if max_seconds is None:
        max_seconds = 240 if os.environ.get('VERIF_TIER', 'quick') == \
            'quick' else 3600
    prog = program or K.make_program(cfg)
    if bound is None:
        return explore.explore(cfg['world'], prog, delivery=delivery,
                               oracle=oracle, outcome=outcome_of,
                               max_states=max_states,
                               max_seconds=max_seconds)
    return explore.explore_bounded(cfg['world'], prog, bound=bound,
                                   delivery=delivery, oracle=oracle,
                                   outcome=outcome_of, max_exec=max_states,
                                   max_seconds=max_seconds)


LAST_SCHEDULE = [None]


def replay_schedule(cfg, schedule, delivery, oracle, program=None,
                    fine_files=()):
    """Run ONE recorded schedule on a fresh world (no exploration)."""
    explore.FINE['files'] = tuple(fine_files)
    try:
        w = explore.replay(cfg['world'], program or K.make_program(cfg),
                           [tuple(t) for t in schedule], delivery)
    finally:
        explore.FINE['files'] = ()
    return sim_bad(w) or (oracle(w) if oracle else [])


def absorb(part, res, key, viols):
    for k in ('executions', 'states', 'transitions', 'terminals',
              'branching_states', 'multi_history_vectors'):
        part.count(k, getattr(res, k))
    part.count('explorations')
    part.maxstat('max_depth', res.max_depth)
    part.maxstat('distinct_outcomes', len(res.outcomes))
    if res.capped:
        part.cap(f'exploration cap hit for {key}')
    if len(res.outcomes) > 1:
        viols.append(('outcomes', f'{len(res.outcomes)} distinct terminal '
                      'outcomes over the explored schedules'))
    viols += [(k, f'{t} [schedule={s}]') for k, t, s in res.violations]
    LAST_SCHEDULE[0] = [list(t) for t in res.violations[0][2]] \
        if res.violations else None
    part.sample({'exploration': key, **res.as_dict(),
                 'sample_schedule': [list(t) for t in
                                     (res.sample_schedules or [[]])[0]][:40]},
                limit=2)
