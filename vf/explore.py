"""Explicit-state and deviation-bounded exploration of a simdist World.

A state is represented by the transition sequence that reaches it and is
re-created by replay on a fresh world (live threads cannot be copied).
"""
from __future__ import annotations

import hashlib
import time

from vf import simdist


class ReplayDivergence(RuntimeError):
    pass


class Result:
    def __init__(self):
        self.states = 0
        self.transitions = 0
        self.executions = 0
        self.max_depth = 0
        self.branching_states = 0
        self.blocked_waits = 0
        self.instances = 0
        self.terminals = 0
        self.outcomes = {}  # outcome digest -> example schedule
        self.violations = []  # (kind, text, schedule)
        self.multi_history_vectors = 0
        self.capped = False
        self.sample_schedules = []

    def as_dict(self):
        return {k: v for k, v in self.__dict__.items()
                if k not in ('outcomes', 'violations', 'sample_schedules')}


FINE = {'files': ()}


def _mk(n, program, delivery, want_key=True):
    simdist.install()
    return simdist.World(n, program, delivery=delivery, want_key=want_key,
                         fine_files=FINE['files'])


def explore(n, program, *, delivery='eager', oracle=None, outcome=None,
            max_states=200000, invariant=None, max_seconds=None):
    """Exhaustive DFS over all reachable states (merged by World.key()).

    oracle(world) -> list[(kind, text)] evaluated in every terminal state;
    outcome(world) -> hashable digest of the observable end result.
    """
    res = Result()
    t0 = time.time()
    seen = set()
    vec_hist = {}
    work = [((), None)]  # (prefix, expected key of the state before last)
    while work:
        prefix, expect = work.pop()
        if res.states >= max_states or (
                max_seconds and time.time() - t0 > max_seconds):
            res.capped = True
            break
        w = _mk(n, program, delivery)
        w.start()
        res.executions += 1
        path = []
        try:
            # replay
            for i, t in enumerate(prefix):
                if i == len(prefix) - 1 and expect is not None:
                    if w.key() != expect:
                        raise ReplayDivergence(
                            f'state before last step of prefix {prefix} '
                            f'differs from the recorded one')
                en = w.enabled()
                if t not in en:
                    raise ReplayDivergence(
                        f'prefix {prefix}: step {i} {t} not enabled ({en})')
                w.fire(t)
                path.append(t)
            if prefix:
                res.transitions += 1
            # extend
            while True:
                k = w.key()
                if k in seen:
                    break
                seen.add(k)
                res.states += 1
                vec = (k[0], k[1], k[2])
                if vec in vec_hist:
                    if vec_hist[vec] != k[3]:
                        res.multi_history_vectors += 1
                else:
                    vec_hist[vec] = k[3]
                res.max_depth = max(res.max_depth, len(path))
                if invariant is not None:
                    for v in invariant(w) or []:
                        res.violations.append((v[0], v[1], list(path)))
                en = w.enabled()
                if not en:
                    w.finalize()
                    res.terminals += 1
                    for kind, text in w.violations:
                        res.violations.append((kind, text, list(path)))
                    for r, e in enumerate(w.errors):
                        if e and e[0] != 'SimViolation':
                            res.violations.append(
                                ('exception', f'rank{r}: {e[0]}', list(path)))
                    if not w.violations and not any(w.errors):
                        if oracle is not None:
                            for v in oracle(w) or []:
                                res.violations.append(
                                    (v[0], v[1], list(path)))
                        if outcome is not None:
                            res.outcomes.setdefault(outcome(w), list(path))
                    if len(res.sample_schedules) < 2:
                        res.sample_schedules.append(list(path))
                    break
                if len(en) > 1:
                    res.branching_states += 1
                for alt in en[1:]:
                    work.append((tuple(path) + (alt,), k))
                w.fire(en[0])
                path.append(en[0])
                res.transitions += 1
            res.blocked_waits = max(res.blocked_waits,
                                    w.stats['blocked_waits'])
            res.instances = max(res.instances, w.stats['instances'])
        finally:
            w.close()
        if len(res.violations) > 20:
            break
    return res


def explore_bounded(n, program, *, bound, delivery='eager', oracle=None,
                    outcome=None, max_exec=200000, max_seconds=None):
    """CHESS-style: all schedules with <= bound deviations from the base
    schedule (lowest enabled transition first).  Stateless."""
    res = Result()
    t0b = time.time()
    work = [((), 0)]  # (forced choices as (position, transition), deviations)
    while work:
        forced, ndev = work.pop()
        if res.executions >= max_exec or (
                max_seconds and time.time() - t0b > max_seconds):
            res.capped = True
            break
        forced_d = dict(forced)
        last_forced = max(forced_d) if forced_d else -1
        w = _mk(n, program, delivery, want_key=False)
        w.start()
        res.executions += 1
        path = []
        try:
            i = 0
            while True:
                en = w.enabled()
                if not en:
                    break
                if i in forced_d:
                    t = forced_d[i]
                    if t not in en:
                        raise ReplayDivergence(
                            f'forced {t} at {i} not enabled ({en})')
                else:
                    t = en[0]
                    if i > last_forced and ndev < bound:
                        for alt in en[1:]:
                            work.append((forced + ((i, alt),), ndev + 1))
                if len(en) > 1:
                    res.branching_states += 1
                w.fire(t)
                path.append(t)
                res.transitions += 1
                i += 1
            res.states += len(path) + 1
            res.max_depth = max(res.max_depth, len(path))
            w.finalize()
            res.terminals += 1
            for kind, text in w.violations:
                res.violations.append((kind, text, list(path)))
            for r, e in enumerate(w.errors):
                if e and e[0] != 'SimViolation':
                    res.violations.append(
                        ('exception', f'rank{r}: {e[0]}', list(path)))
            if not w.violations and not any(w.errors):
                if oracle is not None:
                    for v in oracle(w) or []:
                        res.violations.append((v[0], v[1], list(path)))
                if outcome is not None:
                    res.outcomes.setdefault(outcome(w), list(path))
            if len(res.sample_schedules) < 2:
                res.sample_schedules.append(list(path))
            res.blocked_waits = max(res.blocked_waits,
                                    w.stats['blocked_waits'])
            res.instances = max(res.instances, w.stats['instances'])
        finally:
            w.close()
        if len(res.violations) > 20:
            break
    return res


def replay(n, program, schedule, delivery='eager'):
    """Run one explicit schedule to completion; returns the closed world."""
    w = _mk(n, program, 'free' if delivery == 'fine' else delivery,
            want_key=False)
    return w.run(simdist.FromList(schedule))


def digest(*objs) -> str:
    h = hashlib.blake2b(digest_size=16)
    for o in objs:
        h.update(repr(o).encode())
    return h.hexdigest()
