"""Oracles over (cfg, real event, reference event) pairs produced by kfacrun.

Each returns a list of (kind, text).  Kinds are stable strings used to build
known-finding keys.
"""
from __future__ import annotations

import torch

from vf import kfacref as R
from vf import kfacrun as K

F64 = torch.float64
C_TOL = 30.0


def eps_of(cfg):
    return K.EPS[cfg.get('dtype', 'f32')]


def feps_of(cfg):
    fd = cfg.get('kfac', {}).get('factor_dtype') or cfg.get('dtype', 'f32')
    return {'f32': 1.2e-7, 'f64': 2.3e-16, 'bf16': 7.9e-3,
            'f16': 9.8e-4}[fd]


def kappa(method, A, G, lam):
    na = torch.linalg.matrix_norm(A, 2).item()
    ng = torch.linalg.matrix_norm(G, 2).item()
    if method == 'inverse':
        return (na + lam) * (ng + lam) / (lam * lam)
    return (na * ng + lam) / lam


def has_bias(ev, name):
    return f'{name}.bias' in ev['P'] and ev['P'][f'{name}.bias'] is not None


def grads_vs_ref(cfg, ev, rv, who='', stats=None):
    """C05/C02: gradients after the step equal the reference machine's."""
    v = []
    method = K.method_of(cfg)
    for nm, Pref in rv['P'].items():
        got = K.layer_grad(ev['P'], nm, has_bias(ev, nm))
        A, G, lam0 = rv['so'][nm]
        lam = lam0 if method != 'eigen' else rv['damping']
        tol = C_TOL * eps_of(cfg) * (1 + kappa(method, A, G, lam))
        # stored factors in low precision perturb the system itself
        tol += 10 * feps_of(cfg) * (1 + kappa(method, A, G, lam)) \
            if feps_of(cfg) > 1e-6 else 0
        e = K.rel_err(got, Pref)
        if stats is not None:
            stats.maxstat('grad_err_over_tol', e / tol)
        if not e <= tol:
            v.append(('grad', f'{who}layer {nm}: gradient after step differs '
                      f'from the reference by {e:.3e} (tol {tol:.1e}, '
                      f'nu_ref={rv["nu"]:.4g})'))
    if ev['steps_after'] != rv['steps_after']:
        v.append(('steps', f'{who}steps={ev["steps_after"]} expected '
                  f'{rv["steps_after"]}'))
    return v


def factors_vs_ref(cfg, ev, rv, who='', stats=None):
    """C04: factors equal the decayed running average of the moments."""
    v = []
    fd = cfg.get('kfac', {}).get('factor_dtype') or cfg.get('dtype', 'f32')
    want_dtype = R.DT[fd]
    fe = feps_of(cfg)
    for nm in rv['A']:
        for k, ref in (('A', rv['A'][nm]), ('G', rv['G'][nm])):
            t = ev['factors'][nm][k]
            if t is None:
                v.append(('factor-none', f'{who}{nm}.{k} is None'))
                continue
            if t.dtype != want_dtype:
                v.append(('factor-dtype', f'{who}{nm}.{k} stored as '
                          f'{t.dtype}, requested {want_dtype}'))
            t64 = t.to(F64)
            if not torch.isfinite(t64).all():
                v.append(('factor-nonfinite', f'{who}{nm}.{k} is not finite '
                          '(the running average of finite batch moments)'))
                continue
            e = K.rel_err(t64, ref)
            tol = 40 * max(fe, 1e-7)
            if stats is not None:
                stats.maxstat('factor_err_over_tol', e / tol)
            if not e <= tol:
                v.append(('factor-value', f'{who}{nm}.{k} differs from the '
                          f'decayed running average by {e:.3e} (tol '
                          f'{tol:.1e})'))
            asym = (t64 - t64.t()).abs().max().item()
            if asym > 4 * fe * max(1.0, t64.abs().max().item()):
                v.append(('factor-symmetry', f'{who}{nm}.{k} asymmetric by '
                          f'{asym:.2e}'))
            mn = torch.linalg.eigvalsh((t64 + t64.t()) / 2).min().item()
            if mn < -40 * fe * max(1.0, t64.abs().max().item()):
                v.append(('factor-psd', f'{who}{nm}.{k} smallest eigenvalue '
                          f'{mn:.2e}'))
    return v


def system_residual(cfg, ev, rv, who='', stats=None):
    """C01: gradient = nu * V with V solving the defining system built from
    the implementation's OWN factors (state_dict) and pre-step gradient."""
    v = []
    method = K.method_of(cfg)
    lam = rv['damping']
    Vs, Ds = {}, {}
    for nm in rv['P']:
        hb = has_bias(ev, nm)
        D = K.layer_grad(ev['D'], nm, hb)
        A = ev['factors'][nm]['A'].to(F64)
        G = ev['factors'][nm]['G'].to(F64)
        Ds[nm] = D
        Vs[nm] = (R.solve_inverse if method == 'inverse' else R.solve_eigen)(
            A, G, D, lam)
    nu = R.nu_of(rv['kl_clip'], rv['lr'], [(Vs[n], Ds[n]) for n in Vs])
    for nm in Vs:
        hb = has_bias(ev, nm)
        got = K.layer_grad(ev['P'], nm, hb)
        A = ev['factors'][nm]['A'].to(F64)
        G = ev['factors'][nm]['G'].to(F64)
        if nu == 0:
            continue
        res, kap = R.residual(method, A, G, got / nu, Ds[nm], lam)
        tol = C_TOL * eps_of(cfg) * (1 + kap)
        if method == 'inverse' and feps_of(cfg) > 1e-6:
            # the inverse method adds the damping and inverts starting from
            # the factor in its storage dtype: rounding (A + lam I) to that
            # dtype perturbs the residual by ~ feps * (kappa_A + kappa_G)
            na = torch.linalg.matrix_norm(A, 2).item()
            ng = torch.linalg.matrix_norm(G, 2).item()
            tol += 2 * feps_of(cfg) * ((na + lam) / lam + (ng + lam) / lam)
        if stats is not None:
            stats.maxstat('residual_over_tol', res / tol)
        if not res <= tol:
            v.append(('system', f'{who}layer {nm}: gradient/nu leaves '
                      f'relative residual {res:.3e} in the defining system '
                      f'(tol {tol:.1e}, kappa {kap:.1f}, nu {nu:.4g})'))
        meta = ev['meta_after']
        for suffix in ('weight', 'bias'):
            pn = f'{nm}.{suffix}'
            if pn in ev['P'] and ev['P'][pn] is not None:
                if not torch.isfinite(ev['P'][pn]).all():
                    v.append(('nonfinite', f'{who}{pn} not finite'))
                if meta[pn] != ev['meta_before'][pn]:
                    v.append(('grad-meta', f'{who}{pn} metadata '
                              f'{ev["meta_before"][pn]} -> {meta[pn]}'))
    return v


def untouched(cfg, ev, rv, who=''):
    """C10: parameters, buffers and unregistered gradients unchanged."""
    v = []
    reg = set()
    for nm in rv['P']:
        reg.add(f'{nm}.weight')
        reg.add(f'{nm}.bias')
    for pn, before in ev['params_before'].items():
        if not torch.equal(before, ev['params_after'][pn]):
            v.append(('param-changed', f'{who}step() changed {pn}'))
    for pn, g in ev['D'].items():
        if pn in reg:
            continue
        after = ev['P'][pn]
        if (g is None) != (after is None) or (
                g is not None and not torch.equal(g, after)):
            v.append(('foreign-grad', f'{who}step() changed the gradient of '
                      f'unregistered parameter {pn}'))
        if ev['meta_before'][pn] != ev['meta_after'][pn]:
            v.append(('foreign-grad-meta', f'{who}{pn}'))
    return v


def twin_agreement(cfg, ev, rv, who=''):
    """C10: registering K-FAC does not change autograd gradients."""
    v = []
    for pn, g in rv['raw'].items():
        mine = ev['D'].get(pn)
        if mine is None:
            v.append(('autograd', f'{who}{pn} has no gradient'))
            continue
        e = K.rel_err(mine.to(F64), g)
        if not e <= 50 * eps_of(cfg) * (10 if cfg.get('world', 1) > 1
                                        or cfg.get('scale') else 1):
            v.append(('autograd', f'{who}gradient of {pn} before the step '
                      f'differs from the K-FAC-free twin by {e:.2e}'))
    return v
