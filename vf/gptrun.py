"""Harness program driving the real GPTNeoXKFACPreconditioner on the
Megatron/DeepSpeed stand-ins of gptenv inside a simdist world."""
from __future__ import annotations

import copy
import os
import shutil
import tempfile

import torch
import torch.distributed as dist

from vf import gptenv
from vf import kfacref as R
from vf import kfacrun as K
from vf.digest import kfac_state as _kfac_state

F64 = torch.float64
LAYERS = {'1': ('0', 'column'), '11': ('2', 'row'), '21': ('4', 'column')}


def stage_prefix(stage):
    """Stage 0 keeps the plain names; every pipeline stage is an
    independent replica of the same sharded model under other names (no
    activations are exchanged: K-FAC only sees local layers and groups)."""
    return '' if stage == 0 else f'p{stage}_'


def layers_of(cfg):
    n = 3 if cfg.get('gmodel', 'gpt2l') == 'gpt3l' else 2
    return dict(list(LAYERS.items())[:n])


def ref_cfg(cfg):
    """The unsharded single-axis (data-parallel only) equivalent."""
    gm = cfg.get('gmodel', 'gpt2l')
    seq = f"@{cfg['seq']}" if cfg.get('seq') else ''
    return {'model': (gm if cfg.get('bias', True) else gm + '-nb') + seq,
            'dtype': 'f32', 'batch': cfg.get('batch', 2),
            'world': cfg['dp'], 'seed': cfg.get('seed', 0),
            'kfac': {**{k: v for k, v in cfg['kfac'].items()
                        if k in K.HP_NAMES},
                     'compute_method': 'eigen',
                     'compute_eigenvalue_outer_product': False},
            'loss_mult': cfg.get('loss_mult', 1.0),
            **({'scale': float(cfg['scale'])} if cfg.get('scale') else {}),
            'sgd_lr': cfg.get('sgd_lr', 0.05),
            'history': [op for op in cfg['history']
                        if op[0] in ('train', 'ckpt')]}


class GptRun:
    def __init__(self, cfg, rank, world):
        gptenv.install()
        gptenv.register_ref_models()
        self.cfg, self.rank, self.world = cfg, rank, world
        self.dp, self.mp, self.pp = cfg['dp'], cfg['mp'], cfg.get('pp', 1)
        self.topo = gptenv.PipeModelDataParallelTopology(
            num_pp=self.pp, num_mp=self.mp, num_dp=self.dp)
        c = self.topo.get_coord(rank)
        self.coord = c
        self.groups = {}
        for axis in ('data', 'model', 'pipe'):
            for ranks in self.topo.get_axis_comm_lists(axis):
                g = dist.new_group(ranks)
                if rank in ranks:
                    self.groups[axis] = g
        self.it = 0
        self.tmpdir = cfg.get('ckpt_dir')
        self.model = self._mk_model()
        self.pre = self._mk_pre(self.model)
        self.rec = []
        world.set_digest(lambda: _kfac_state(self.pre, (), len(self.rec)))

    def _mk_model(self):
        if self.cfg.get('plain_stage') == self.coord.pipe:
            # a pipeline stage without any K-FAC layer (plain nn.Linear is
            # not registered by the GPT-NeoX preconditioner)
            full = gptenv.full_model(self.cfg.get('gmodel', 'gpt2l'),
                                     self.cfg.get('bias', True),
                                     seed=self.cfg.get('seed', 0))
            return gptenv.PipelineModule(
                full, self.topo, prefix=stage_prefix(self.coord.pipe))
        shard = gptenv.shard_model(self.cfg.get('gmodel', 'gpt2l'),
                                   self.cfg.get('bias', True),
                                   self.mp, self.coord.model,
                                   self.groups['model'],
                                   seed=self.cfg.get('seed', 0))
        return gptenv.PipelineModule(shard, self.topo,
                                     prefix=stage_prefix(self.coord.pipe))

    def _mk_pre(self, model):
        from kfac.gpt_neox.preconditioner import GPTNeoXKFACPreconditioner

        kw = K.kfac_kwargs(self.cfg)
        if self.cfg.get('scale'):
            sc = float(self.cfg['scale'])
            kw['grad_scaler'] = lambda: sc
        if self.tmpdir:
            kw['factor_checkpoint_dir'] = self.tmpdir
        import warnings

        with warnings.catch_warnings():
            warnings.simplefilter('ignore')
            return GPTNeoXKFACPreconditioner(
                model, data_parallel_group=self.groups['data'],
                model_parallel_group=self.groups['model'],
                pipeline_parallel_group=self.groups['pipe'], **kw)

    def grads(self):
        return {n: (None if p.grad is None else p.grad.detach().clone())
                for n, p in self.model.named_parameters()}

    def factors_here(self):
        out = {}
        a = self.pre._assignment
        for mod, (name, layer) in self.pre._layers.items():
            if a.inv_worker(name, 'A') == self.rank:
                fa, fg = layer.a_factor, layer.g_factor
                out[name] = {
                    'A': None if fa is None else fa.detach().clone(),
                    'G': None if fg is None else fg.detach().clone()}
        return out

    def do(self, op, idx):
        kind = op[0]
        self.world.tag[self.rank] = (kind, idx, self.pre.steps)
        ev = {'op': list(op), 'steps_before': self.pre.steps}
        if kind == 'train':
            self.train(ev)
        elif kind == 'state':
            sd = self.pre.state_dict()
            ev['state'] = K.snap_state(sd)
            ev['factors_here'] = self.factors_here()
            if self.tmpdir:
                ev['files'] = sorted(os.listdir(self.tmpdir)) \
                    if os.path.isdir(self.tmpdir) else []
        elif kind == 'ckpt':
            compute = op[2]
            sd = self.pre.state_dict()
            ev['saved'] = K.snap_state(sd)
            ev['factors_here'] = self.factors_here()
            a = self.pre._assignment
            ev['inv_worker'] = {n: a.inv_worker(n, 'A')
                                for n in a.get_layers()}
            ev['factor_worker'] = {n: a.factor_worker(n, 'A')
                                   for n in a.get_layers()}
            # the checkpoint is complete before anybody restarts from it
            old = self.world.tag[self.rank]
            self.world.tag[self.rank] = ('harness-barrier',)
            dist.barrier()
            self.world.tag[self.rank] = old
            if self.tmpdir and os.path.isdir(self.tmpdir):
                ev['files'] = {f: torch.load(os.path.join(self.tmpdir, f))
                               for f in sorted(os.listdir(self.tmpdir))}
            sd = copy.deepcopy(sd)
            model = self._mk_model()
            model.load_state_dict(self.model.state_dict())
            self.model = model
            self.pre = self._mk_pre(model)
            self.pre.load_state_dict(sd, compute_inverses=compute)
            ev['after_load'] = {
                name: {'A': layer._a_factor, 'G': layer._g_factor,
                       'has_so': getattr(layer, '_qa', None) is not None
                       and getattr(layer, '_qg', None) is not None}
                for _, (name, layer) in self.pre._layers.items()}
            self.world.set_digest(
                lambda: _kfac_state(self.pre, (), len(self.rec)))
        else:
            raise KeyError(kind)
        ev['steps_after'] = self.pre.steps
        self.rec.append(ev)
        self.world.point(('op', idx))

    def train(self, ev):
        cfg = self.cfg
        d = self.coord.data
        self.model.zero_grad()
        gm = cfg.get('gmodel', 'gpt2l')
        seq = f"@{cfg['seq']}" if cfg.get('seq') else ''
        x = R.batch_for(gm + seq, cfg.get('batch', 2), torch.float32, d,
                        self.it, 0, cfg.get('seed', 0))
        out = self.model(x)
        if gm == 'gpt3l':
            # output is sharded on the last dimension: every rank takes its
            # slice of the full target; the shards' losses add up to the
            # mean-reduced loss of the unsharded model
            full = gptenv.SIZES[gm][3]
            lead = tuple(out.shape[:-1])
            y = R.lattice(lead + (full,), 2, d, self.it, 0,
                          seed=cfg.get('seed', 0)).to(out.dtype)
            s = full // self.mp
            y = y[..., self.coord.model * s:(self.coord.model + 1) * s]
            n_lead = 1
            for v in lead:
                n_lead *= v
            loss = ((out - y) ** 2).sum() / (n_lead * full)
        else:
            loss = R.loss_fn(out, d, self.it, 0, cfg.get('seed', 0))
        loss = loss * cfg.get('loss_mult', 1.0)
        if cfg.get('scale'):
            loss = loss * float(cfg['scale'])    # AMP loss scaling
        loss.backward()
        params = [p for p in self.model.parameters() if p.grad is not None]
        if cfg.get('scale'):
            for p in params:
                p.grad.div_(float(cfg['scale']))
        if self.dp > 1:
            flat = torch.cat([p.grad.reshape(-1) for p in params])
            old = self.world.tag[self.rank]
            self.world.tag[self.rank] = ('ddp',)
            dist.all_reduce(flat, group=self.groups['data'])
            self.world.tag[self.rank] = old
            flat = flat / self.dp
            o = 0
            for p in params:
                k = p.grad.numel()
                p.grad.copy_(flat[o:o + k].reshape(p.grad.shape))
                o += k
        ev['D'] = self.grads()
        self.pre.step()
        ev['P'] = self.grads()
        ev['factors_here'] = self.factors_here()
        lr = cfg.get('sgd_lr', 0.05)
        with torch.no_grad():
            for p in self.model.parameters():
                if p.grad is not None:
                    p.add_(p.grad, alpha=-lr)
        self.it += 1


def make_program(cfg):
    def program(rank, world):
        run = GptRun(cfg, rank, world)
        for i, op in enumerate(cfg['history']):
            run.do(op, i)
        world.store.setdefault('runs', {})[rank] = run
        world.tag[rank] = ('final-flush',)
        run.pre._tdc.flush_allreduce_buckets()
        return run.rec
    return program


def expected_shards(cfg, rv, coord):
    """name -> (weight shard, bias shard) of the reference gradient."""
    out = {}
    bias = cfg.get('bias', True)
    for gname, (rname, kind) in layers_of(cfg).items():
        out[gname] = gptenv.shard_of(rv['P'][rname], rname, kind, cfg['mp'],
                                     coord.model, bias)
    return out
