"""Conformance of the environment model: the same harness program is run
under simdist and as real forked processes over gloo (127.0.0.1) with the
torch.distributed entry points wrapped by a recorder; per rank the sequence
of (kind, group members, root, shape, dtype) and the results must agree.
(DESIGN.md 2.7)"""
from __future__ import annotations

import io
import multiprocessing as mp
import os
import socket
import traceback

import torch
import torch.distributed as dist

from vf import simdist


def free_port():
    s = socket.socket()
    s.bind(('127.0.0.1', 0))
    p = s.getsockname()[1]
    s.close()
    return p


class GlooWorld:
    def __init__(self, n):
        self.n = n
        self.tag = [None] * n
        self.store = {}

    def point(self, label='op'):
        pass

    def set_digest(self, fn):
        pass


def _sig(kind, a, k):
    if kind == 'all_reduce':
        t = a[0]
        return ('sum', str(t.dtype), tuple(t.shape))
    if kind == 'broadcast':
        t = a[0]
        src = k.get('src', a[1] if len(a) > 1 else None)
        return (src, str(t.dtype), tuple(t.shape))
    if kind == 'all_gather':
        return (str(a[1].dtype), tuple(a[1].shape), len(a[0]))
    if kind == 'reduce_scatter':
        return (str(a[0].dtype), tuple(a[0].shape), len(a[1]),
                tuple(tuple(t.shape) for t in a[1]))
    if kind == 'all_gather_object':
        return (len(a[0]),)
    return ()


def _record_calls(trace):
    names = ('all_reduce', 'broadcast', 'all_gather', 'reduce_scatter',
             'barrier', 'all_gather_object')
    # undo simdist's dispatchers in this process, then wrap the originals
    for nm, orig in simdist._orig.items():
        if hasattr(dist, nm) and nm not in ('wait', 'then'):
            setattr(dist, nm, orig)
    if 'wait' in simdist._orig:
        torch._C.Future.wait = simdist._orig['wait']
        torch._C.Future.then = simdist._orig['then']
    for nm in names:
        orig = getattr(dist, nm)

        def f(*a, _o=orig, _n=nm, **k):
            g = k.get('group')
            ranks = tuple(dist.get_process_group_ranks(
                g if g is not None else dist.group.WORLD))
            root = k.get('src', a[1] if _n == 'broadcast' and len(a) > 1
                         else None) if _n == 'broadcast' else None
            trace.append((_n, ranks, root, _sig(_n, a, k)))
            return _o(*a, **k)

        setattr(dist, nm, f)
    o_ng = dist.new_group

    def ng(ranks=None, *a, **k):
        trace.append(('new_group', tuple(ranks) if ranks is not None
                      else None, None, ()))
        return o_ng(ranks, *a, **k)

    dist.new_group = ng


def _proc(rank, n, port, program, q):
    try:
        torch.set_num_threads(1)
        os.environ.update(MASTER_ADDR='127.0.0.1', MASTER_PORT=str(port),
                          RANK=str(rank), WORLD_SIZE=str(n),
                          LOCAL_RANK=str(rank))
        trace = []
        _record_calls(trace)
        dist.init_process_group('gloo')
        res = program(rank, GlooWorld(n))
        dist.barrier()
        buf = io.BytesIO()
        torch.save(res, buf)
        q.put((rank, trace[:-1], buf.getvalue(), None))
        dist.destroy_process_group()
    except BaseException:  # noqa
        q.put((rank, None, None, traceback.format_exc()))


def run_gloo(n, program, timeout=180):
    """-> (traces, results) per rank, or raises RuntimeError."""
    ctx = mp.get_context('fork')
    q = ctx.Queue()
    port = free_port()
    procs = [ctx.Process(target=_proc, args=(r, n, port, program, q))
             for r in range(n)]
    for p in procs:
        p.start()
    out = {}
    err = None
    try:
        for _ in range(n):
            rank, tr, res, e = q.get(timeout=timeout)
            if e:
                err = f'rank{rank}: {e[-800:]}'
                break
            out[rank] = (tr, torch.load(io.BytesIO(res),
                                        weights_only=False))
    except Exception as e:  # noqa
        err = f'timeout/queue: {type(e).__name__}'
    for p in procs:
        p.join(timeout=10 if err is None else 1)
        if p.is_alive():
            p.terminate()
    if err:
        raise RuntimeError(err)
    return [out[r][0] for r in range(n)], [out[r][1] for r in range(n)]


def sim_trace(w, r):
    tr = [('new_group', tuple(x), None, ()) for x in w.newgroup_calls[r]]
    # interleave is not recorded for new_group in simdist: compare
    # collectives and new_group sequences separately
    coll = [(e['kind'], tuple(e['ranks']), e['root'], e['sig'])
            for e in w.trace[r]]
    return tr, coll


LAST = {'collectives': 0}


def compare(n, program, result_cmp, sname='S0-lowest-eager'):
    """Run under simdist and gloo; return list of disagreements."""
    LAST['collectives'] = 0
    w = simdist.run_world(n, program, sname)
    bad = list(w.violations) + [e[0] for e in w.errors if e]
    if bad:
        return [f'simdist run failed: {bad[0]}']
    traces, results = run_gloo(n, program)
    dis = []
    for r in range(n):
        ng_s, coll_s = sim_trace(w, r)
        ng_g = [t for t in traces[r] if t[0] == 'new_group']
        coll_g = [t for t in traces[r] if t[0] != 'new_group']
        if [t[1] for t in ng_s] != [t[1] for t in ng_g]:
            dis.append(f'rank{r}: new_group sequences differ: sim '
                       f'{ng_s[:3]} gloo {ng_g[:3]}')
        if len(coll_s) != len(coll_g):
            dis.append(f'rank{r}: {len(coll_s)} collectives under simdist, '
                       f'{len(coll_g)} under gloo')
            continue
        LAST['collectives'] += len(coll_g)
        for i, (a, b) in enumerate(zip(coll_s, coll_g)):
            if (a[0], tuple(sorted(a[1])), a[2], tuple(a[3])) != \
                    (b[0], tuple(sorted(b[1])), b[2], tuple(b[3])):
                dis.append(f'rank{r} collective {i}: simdist {a} gloo {b}')
                break
        d = result_cmp(w.results[r], results[r])
        if d:
            dis.append(f'rank{r}: results differ: {d}')
    return dis


def cmp_kfac_records(a, b):
    for i, (ea, eb) in enumerate(zip(a, b)):
        if ea['op'][0] != 'train':
            continue
        for pn, g in ea['P'].items():
            h = eb['P'][pn]
            if g is None or h is None:
                continue
            e = (g.double() - h.double()).norm().item() / max(
                g.double().norm().item(), 1e-30)
            if not e <= 1e-5:
                return f'op {i} gradient {pn} differs by {e:.2e}'
    return None
